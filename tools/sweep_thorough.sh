#!/bin/sh
# usage: sweep_thorough.sh <budget_s>  - every thorough check once, foreign keys listed at the end
for p in C09 C10 C11 C12 C13 C14 C15 C16 C23 C32 C33 C17 C05 C19 C20 C21 C22 C35 C18 C36; do mkdir -p sw/$p; PONYSIM_DEV_SWEEP=sw/$p VERIF_WORKERS=10 VERIF_BUDGET_S=$1 timeout 1500 /venv/bin/python -m ponysim check --property $p --tier thorough 2>&1 | grep -v KNOWN-FINDING | grep "tier=\|VIOLATION\|key:\|HARNESS"; done
python3 -c "
import json,glob
for f in sorted(glob.glob('sw/*/foreign_*.json')):
    d=json.load(open(f)); print(f, sorted(d))
"
