#!/bin/sh
# run the repository's own suite and print the summary (baseline: 3874 passed, 2 failed + 1 error in test_decompiler)
cd "${1:-/repo}" && timeout 1800 /venv/bin/python -m pytest -q -p no:cacheprovider --timeout=900 --continue-on-collection-errors 2>&1 | tail -4 | grep -v "^$"
