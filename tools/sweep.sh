#!/bin/sh
# usage: sweep.sh "<seeds>" tier
for s in $1; do for p in C09 C10 C11 C12 C13 C14 C15 C16 C23 C32 C33 C17 C05 C19 C20 C21 C22 C35 C18 C36; do mkdir -p sw/$s/$p; PONYSIM_DEV_SWEEP=sw/$s/$p VERIF_SEED=$s VERIF_WORKERS=${SWEEP_WORKERS:-10} timeout 1500 /venv/bin/python -m ponysim check --property $p --tier $2 2>&1 | grep -v KNOWN-FINDING | grep "tier=\|VIOLATION\|key:\|HARNESS"; done; done
python3 -c "
import json,glob
for f in sorted(glob.glob('sw/*/*/foreign_*.json')):
    d=json.load(open(f)); print(f, sorted(d))
"
