#!/usr/bin/env python3
"""Developer aid: minimise a case file ({'case':..., 'violation': {'key':...}, 'property': ...}) for its key and
print the trace of the result.  usage: tools/minimise_case.py <file> [out]"""
import json
import os
import sys

sys.path.insert(0, os.path.dirname(os.path.dirname(os.path.abspath(__file__))))
from ponysim import env, harness, engines   # noqa: E402
from ponysim.pool import Pool               # noqa: E402


def main():
    doc = json.load(open(sys.argv[1]))
    case, key, prop = doc['case'], doc['violation']['key'], doc['property']
    env.import_pony()
    with Pool() as pool:
        small, runs = harness.minimise(pool, engines.get(case['engine']), case, key, prop)
        small = dict(small)
        small['want_trace'] = True
        res = pool.run_one(small)
    print('minimised in %d runs' % runs)
    print('\n'.join(res.get('trace') or []))
    for v in res.get('violations', ()):
        print(v['key'], '::', v['detail'][:500])
    small.pop('want_trace')
    doc['case'] = small
    out = sys.argv[2] if len(sys.argv) > 2 else sys.argv[1] + '.min'
    json.dump(doc, open(out, 'w'))
    print(json.dumps(small))


if __name__ == '__main__':
    main()
