#!/usr/bin/env python3
"""Regenerate /verif/MANIFEST.json from the table below (checks are listed only
when their driver module exists)."""
import json
import os

V = os.path.dirname(os.path.dirname(os.path.abspath(__file__)))

NA = {
 'C01': 'pure function of (model, data, query text): no schedule, clock, fault, interleaving or history for a simulator to control; deciding it is input generation over a query grammar',
 'C02': 'pure function of (query, data, dialect); besides, no second backend (PostgreSQL/MySQL server or driver) exists in this sandbox',
 'C03': 'pure function of a code object (bytecode -> AST); no schedule, fault or history',
 'C04': 'pure function of (expression, caller scope); no schedule, fault or history',
 'C06': 'pure function of (value, parameter style, dialect); no schedule, fault or history',
 'C07': 'pure function of (attribute declaration, value, backend) round trip; no schedule, fault or history',
 'C08': 'pure function of (attribute declaration, candidate value); no schedule, fault or history',
 'C24': 'pure function of (query-method chain, data); no schedule, fault or history',
 'C25': 'pure function of (string, bounds, dialect), stated over unbounded integers; no schedule, fault or history',
 'C26': 'pure function of (entity declarations, dialect); no schedule, fault or history',
 'C27': 'pure function of stored data and query; its one history-dependent clause (class refinement of an object first seen through a base-class reference) is exercised inside the C11 check',
 'C28': 'input space is the set of mutating methods/operators of tracked containers; no schedule, fault or interleaving',
 'C29': 'pure function of (JSON document, operation, dialect); no schedule, fault or history',
 'C30': 'pure function of (SQL text, scope, paramstyle); its one history clause (independence from earlier adaptations) is an instance of cache transparency and is decided inside the C05 check',
 'C31': 'pure function of (model state, serialisation call); to_dict() is a read under C10 and unpickling an identity path under C11',
 'C34': 'pure function of (rule set, user, object); no schedule, fault or history',
}

SQLITE_NOTE = ('SQLite only (no other backend can run here); the DB-API proxy, simulated locks and seeded scheduler are '
               'trusted; faults are delivered before the call takes effect; sampling, not proof, except where '
               'coverage.exhaustive is true')

# id -> (category, engine, technique, text, design_ref)
CHECKS = {
 'C05': ('exploration', 'qcache', 'deterministic simulation: differential cache-loss injection over seeded query histories',
         'seeded histories of query executions re-using code objects and strings with varying parameter values/types are run under cache-fault schedules (never drop / drop all before each op / seeded drops); observations must be identical', 'DESIGN 5 C05'),
 'C09': ('exploration', 'seq', 'deterministic simulation: seeded session histories with DB faults against an executable reference model',
         'seeded multi-session histories with injected DB faults and, in every fifth history, a peer process committing a write behind an optimistic session; the database dump after every commit/rollback/failure is compared with the reference model, an UPDATE that matched no row may not be accepted', 'DESIGN 5 C09'),
 'C10': ('exploration', 'seq', 'deterministic simulation: seeded histories with injected flush timing against a reference model',
         'every read in seeded histories is compared with the reference model session view under never/always/seeded injected flush timing', 'DESIGN 5 C10'),
 'C11': ('exploration', 'seq', 'deterministic simulation: identity-map invariants after every step of seeded histories, also after an injected peer write',
         'index/object bijection invariant after every operation plus identity audits through every access path (Entity[pk], get, select, navigation, proxies kept across sessions, base-class lookups of subclass objects)', 'DESIGN 5 C11'),
 'C12': ('exploration', 'seq', 'deterministic simulation: relationship symmetry invariants after every step of seeded histories',
         'both-ends-agree invariant over loaded state after every operation; link tables compared with the model at commit', 'DESIGN 5 C12'),
 'C13': ('fault_enumeration', 'seq', 'deterministic simulation: fault enumeration over the internal DB calls of failing modifications + seeded histories',
         'white-box session snapshot before/after every failing modification (natural failures and a DB fault at each internal call of the operation)', 'DESIGN 5 C13'),
 'C14': ('exploration', 'seq+conc', 'deterministic simulation: seeded histories and thread schedules with key collisions',
         'duplicate keys must be reported at the operation or prevent the commit; dumps never hold equal keys; a third of the histories on tables without UNIQUE constraints (only the session can report); concurrent creators under seeded schedules', 'DESIGN 5 C14'),
 'C15': ('exploration', 'seq', 'deterministic simulation: seeded deletion histories against model cascade semantics',
         'model cascade semantics in both directions (accepted what the rule refuses / refused what it accepts), bulk query deletes against a model of the declared foreign keys, foreign_key_check after every commit', 'DESIGN 5 C15'),
 'C16': ('exploration', 'seq', 'deterministic simulation: seeded histories under immediate foreign keys',
         'a clean orderable session never gets an integrity error at flush; reference cycles among new objects raise, are never saved silently and leave nothing of the session in the database', 'DESIGN 5 C16'),
 'C17': ('fault_enumeration', 'crash', 'deterministic simulation: crash snapshot at every DB-API call boundary + error injection at every call index',
         'every call-boundary snapshot of the database files equals the last committed model state; every (call index, fault kind) leaves all or nothing, also when the program catches the error inside the session, carries on and rolls back; connection loss on a stand-in reconnecting provider', 'DESIGN 5 C17'),
 'C18': ('fault_enumeration', 'sess', 'deterministic simulation: enumerated db_session configuration grid with injected exceptions and commit faults against an executable spec',
         'grid of session forms x options x raise positions, each compared with a small executable specification of the documented commit/retry rule', 'DESIGN 5 C18'),
 'C19': ('fault_enumeration', 'shapes+conc', 'deterministic simulation: DB-API fault enumeration over session shapes + seeded thread schedules',
         'every (call index, legal fault kind) and error-path pairs for every session shape, end-state oracle at the seams plus liveness probe; seeded schedules of 2-3 threads for lock/connection release', 'DESIGN 5 C19'),
 'C20': ('exploration', 'conc', 'deterministic simulation: seeded statement-granularity schedules of optimistic sessions, history oracle',
         'seeded interleavings at DB-call granularity of 2-3 optimistic sessions on shared rows; committed updates imply current read sets; conservation of increments', 'DESIGN 5 C20'),
 'C21': ('exploration', 'conc', 'deterministic simulation: seeded schedules of a reader against committing writers, history oracle',
         'per (object, attribute) and per fully loaded collection the reader observes a constant value until its first error', 'DESIGN 5 C21'),
 'C22': ('exploration', 'conc', 'deterministic simulation: seeded line-level pre-emption at shared-cache access points, differential against solo runs',
         'threads sharing code objects with differing baked-in parameters under line-level pre-emption inside the cache functions; per-thread observations must equal the solo run', 'DESIGN 5 C22'),
 'C23': ('exploration', 'seq', 'deterministic simulation: seeded histories under randomised loading knobs against one reference model',
         'the C09/C10 oracles under lazy attributes (scalars and references), lazy collections, prefetch, batch thresholds and parameter limits chosen by seeded knobs; reads that raise a repeatable-read error in single-writer histories', 'DESIGN 5 C23'),
 'C32': ('exploration', 'seq', 'deterministic simulation: seeded histories ending sessions every way, then operations on detached objects',
         'mutations of detached objects (attributes, collections, delete, in-place changes of tracked Json values, use as a value in a later session) raise, send zero DB calls and change nothing', 'DESIGN 5 C32'),
 'C33': ('exploration', 'seq', 'deterministic simulation: recorded hook/statement event history, exactly-once and ordering oracle',
         'hook events interleaved with statement events: exactly once, ordered, edits saved in the same flush; hooks that log, read, edit, create, link, or edit other objects from after_* hooks', 'DESIGN 5 C33'),
 'C35': ('exploration', 'conc', 'deterministic simulation: seeded schedules of a locking session against Pony writers and an external raw writer',
         'no external write is applied to a locked row before the locker ends; conservation of increments', 'DESIGN 5 C35'),
 'C36': ('fault_enumeration', 'fork', 'deterministic simulation: real fork() at enumerated session positions, connection pid ledger',
         'enumerated fork positions x parent/child orders, second database, failing child connect, grandchild; no call on a connection from a pid that did not create it', 'DESIGN 5 C36'),
}

ENGINES = {
 'shapes': 'session shapes x DB-API fault enumeration (single thread)',
 'conc': 'seeded scheduler over real threads, DB-call / lock / line pre-emption, optional external writer',
 'seq': 'seeded session histories against the executable reference model',
 'crash': 'crash snapshots at every DB-API call boundary',
 'sess': 'db_session configuration grid against an executable spec',
 'fork': 'real fork() at enumerated positions',
 'qcache': 'differential cache-loss injection',
}


def main():
    checks = []
    served = {}
    for pid, (cat, eng, tech, text, ref) in sorted(CHECKS.items()):
        if not os.path.exists(os.path.join(V, 'ponysim', 'checks', pid.lower() + '.py')):
            continue
        for e in eng.split('+'):
            served.setdefault(e, []).append(pid)
        checks.append({
            'property_id': pid,
            'quick_cmd': 'timeout 900 /venv/bin/python -m ponysim check --property %s --tier quick' % pid,
            'thorough_cmd': 'timeout 3000 /venv/bin/python -m ponysim check --property %s --tier thorough' % pid,
            'evidence_file': '/verif/evidence/%s.json' % pid,
            'replay_cmd_template': '/venv/bin/python -m ponysim replay {path}',
            'engine': eng,
            'level_claimed': {'category': cat, 'text': text, 'design_ref': ref},
            'level_note': SQLITE_NOTE,
            'technique': tech,
        })
    na = [{'property_id': k, 'reason': v} for k, v in sorted(NA.items())]
    m = {
        'version': 1,
        'setup_cmd': '/venv/bin/python -m ponysim selftest-env',
        'hooks': {
            'guard': 'PONY_VERIF_SIM',
            'enable': 'no source hooks: every seam is a module global or class attribute replaced from outside by the worker '
                      '(pony.orm.dbproviders.sqlite.sqlite / .Lock, pony.orm.core.RLock, Entity.__hash__); workers set '
                      'PONY_VERIF_SIM=1 but nothing in /repo reads it',
            'baseline_off_cmd': 'cd /repo && /venv/bin/python -m pytest -ra -q -p no:cacheprovider --timeout=900 --continue-on-collection-errors',
            'source_commits': [],
            'add_only': True,
        },
        'engines': [{'name': e, 'path': 'ponysim/engines/%s.py' % e, 'serves_properties': sorted(set(served[e])),
                     'kind_free_text': ENGINES.get(e, '')} for e in sorted(served)],
        'checks': checks,
        'notes': 'Deterministic simulation with fault injection (see DESIGN.md). Exit 0 = held on everything explored '
                 '(KNOWN-FINDING lines allowed), exit 1 = VIOLATION with replay file, exit 2 = HARNESS-ERROR. '
                 'Genuine defects repaired so far are listed in known_findings.json (status fixed).',
        'not_applicable': na,
    }
    with open(os.path.join(V, 'MANIFEST.json'), 'w') as f:
        json.dump(m, f, indent=1)
    print('checks:', [c['property_id'] for c in checks])
    missing = sorted(set(CHECKS) - set(c['property_id'] for c in checks))
    print('not yet built:', missing)


if __name__ == '__main__':
    main()
