#!/bin/sh
# collect_seed.sh <worktree> <seed name>: copy a seeding agent's deliverables into /verif/seeded/<name>
# (either <worktree>/_seeded/{patch.diff,demo.py,meta.json}, or an uncommitted diff + demo.py + meta.json in the root)
set -e
d=/verif/seeded/$2
mkdir -p "$d"
if [ -d "$1/_seeded" ]; then
    cp "$1/_seeded/patch.diff" "$1/_seeded/demo.py" "$1/_seeded/meta.json" "$d/"
else
    git -C "$1" diff > "$d/patch.diff"
    cp "$1/demo.py" "$1/meta.json" "$d/"
fi
echo "$d: $(grep -c '^[-+][^-+]' "$d/patch.diff") changed lines"
