#!/bin/sh
# collect_seed.sh <worktree> <seed name>: copy a seeding agent's deliverables into /verif/seeded/<name>
set -e
d=/verif/seeded/$2
mkdir -p "$d"
cp "$1/_seeded/patch.diff" "$1/_seeded/demo.py" "$1/_seeded/meta.json" "$d/"
echo "$d: $(grep -c '^[-+][^-+]' "$d/patch.diff") changed lines"
