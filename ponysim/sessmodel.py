"""Executable reference model of a Pony session history (DESIGN section 3.1).

The schema is data; from it we derive (a) the Pony entity source that the run
exec's and (b) the model's metadata, so the two cannot drift apart.  The model
holds one *view* (entity objects with scalar values, relationships as pair
sets); the engine keeps a committed copy and a session copy of it.

Relationship side effects follow Pony's documented rules (DESIGN appendix A,
taken from Attribute.__set__/update_reverse, Set.__set__/add/remove,
Entity.__init__ and Entity._delete_).  Where the rule says "refuse", the model
raises Refuse; the engine only applies an operation to the model *after* Pony
accepted it, so a Refuse at that point is a conformance discrepancy.
"""
import copy


class Refuse(Exception):
    """The documented rule refuses this operation."""


class AttrMeta(object):
    def __init__(self, ent, name, kind, opts):
        self.ent = ent
        self.name = name
        self.kind = kind                  # pk | req | opt | set
        self.opts = opts
        self.rel = opts.get('rel')
        self.reverse_name = opts.get('reverse')
        self.type = opts.get('type')
        self.is_set = kind == 'set'
        self.is_rel = self.rel is not None
        self.is_pk = kind == 'pk' or opts.get('pk_part', False)
        self.required = kind in ('req', 'pk')
        self.unique = bool(opts.get('unique')) or (kind == 'pk' and not opts.get('pk_part'))
        self.nullable = opts.get('nullable')
        self.auto = bool(opts.get('auto'))
        self.cascade_opt = opts.get('cascade_delete')
        self.cascade = None               # effective, computed when linked
        self.reverse = None               # AttrMeta
        self.lazy = bool(opts.get('lazy'))
        self.volatile = bool(opts.get('volatile'))
        self.is_json = self.type == 'Json'

    @property
    def default(self):
        if 'default' in self.opts:
            return self.opts['default']
        if self.is_rel or self.is_set:
            return None
        if self.kind == 'opt' and self.type == 'str' and not self.nullable:
            return ''
        if self.kind == 'opt' and self.type == 'Json':
            return {}
        return None

    def __repr__(self):
        return '%s.%s' % (self.ent.name, self.name)


class EntMeta(object):
    def __init__(self, name, attrs, opts):
        self.name = name
        self.opts = opts
        self.attrs = [AttrMeta(self, n, k, dict(o)) for (n, k, o) in attrs]
        self.by_name = dict((a.name, a) for a in self.attrs)
        self.pk_attrs = [a for a in self.attrs if a.is_pk]
        self.auto_pk = len(self.pk_attrs) == 1 and self.pk_attrs[0].auto
        self.composite_keys = [tuple(ck) for ck in opts.get('composite_keys', ())]
        self.base = opts.get('base')
        self.own_attrs = list(self.attrs)
        self.own_composite_keys = list(self.composite_keys)

    def inherit(self, base):
        """single-table inheritance: the subclass has the attributes and keys of its base as well (the AttrMeta
        objects are shared: an inherited relationship attribute belongs to the base entity)"""
        self.attrs = list(base.attrs) + self.own_attrs
        self.by_name = dict((a.name, a) for a in self.attrs)
        self.pk_attrs = list(base.pk_attrs)
        self.auto_pk = base.auto_pk
        self.composite_keys = list(base.composite_keys) + self.own_composite_keys

    def key_owner(self, key):
        """name of the entity whose objects a key ranges over: the one that declares it"""
        own = set(a.name for a in self.own_attrs)
        if self.base and not any(n in own for n in key):
            return self.base
        return self.name

    def scalars(self):
        return [a for a in self.attrs if not a.is_rel]

    def queryable(self):
        """scalar attributes a query can compare with a value (not Json)"""
        return [a for a in self.attrs if not a.is_rel and not a.is_json]

    def to_ones(self):
        return [a for a in self.attrs if a.is_rel and not a.is_set]

    def sets(self):
        return [a for a in self.attrs if a.is_set]


class Schema(object):
    def __init__(self, spec):
        self.spec = spec
        self.entities = [EntMeta(n, attrs, opts) for (n, attrs, opts) in spec]
        self.by_name = dict((e.name, e) for e in self.entities)
        for e in self.entities:
            if e.base:
                e.inherit(self.by_name[e.base])
        for e in self.entities:
            for a in e.attrs:
                if a.is_rel:
                    a.reverse = self.by_name[a.rel].by_name[a.reverse_name]
        for e in self.entities:
            for a in e.attrs:
                if a.is_rel:
                    # appendix A1
                    if a.cascade_opt is None:
                        a.cascade = a.is_set and a.reverse.required
                    else:
                        a.cascade = bool(a.cascade_opt)

    @staticmethod
    def ref_has_columns(e, a):
        """to-one attributes that certainly own the foreign-key columns: many-to-one, and the required side of a
        one-to-one relationship whose other side is optional"""
        if a.reverse is None or a.is_set:
            return False
        if a.reverse.is_set:
            return True
        return a.kind == 'req' and a.reverse.kind == 'opt'

    # ---- Pony source
    def source(self, knobs=None):
        knobs = knobs or {}
        lines = []
        for e in self.entities:
            lines.append('class %s(%s):' % (e.name, e.base or 'db.Entity'))
            composite_pk = len(e.pk_attrs) > 1 and not e.base
            for a in e.own_attrs:
                args = []
                kw = []
                if a.is_rel:
                    args.append(repr(a.rel))
                    if a.reverse_name:
                        kw.append('reverse=%r' % a.reverse_name)
                    if a.cascade_opt is not None:
                        kw.append('cascade_delete=%r' % bool(a.cascade_opt))
                    if a.is_set and knobs.get('lazy_sets'):
                        kw.append('lazy=True')
                    if not a.is_set and not a.is_pk and knobs.get('lazy_refs') and self.ref_has_columns(e, a):
                        kw.append('lazy=True')
                else:
                    args.append(a.type)
                    if a.auto:
                        kw.append('auto=True')
                    if a.opts.get('unique') and not a.is_pk:
                        kw.append('unique=True')
                    if a.nullable:
                        kw.append('nullable=True')
                    if 'default' in a.opts:
                        kw.append('default=%r' % (a.opts['default'],))
                    if a.volatile:
                        kw.append('volatile=True')
                    if not a.is_pk and (a.lazy or (knobs.get('lazy_attrs') and a.kind == 'opt')):
                        kw.append('lazy=True')
                if a.kind == 'pk' and not composite_pk:
                    cls = 'PrimaryKey'
                elif a.is_pk:
                    cls = 'Required'
                elif a.kind == 'req':
                    cls = 'Required'
                elif a.kind == 'opt':
                    cls = 'Optional'
                else:
                    cls = 'Set'
                lines.append('    %s = %s(%s)' % (a.name, cls, ', '.join(args + kw)))
            if composite_pk:
                lines.append('    PrimaryKey(%s)' % ', '.join(a.name for a in e.pk_attrs))
            own = set(a.name for a in e.own_attrs)
            for ck in e.own_composite_keys:
                lines.append('    composite_key(%s)' % ', '.join(n if n in own else '%s.%s' % (e.base, n) for n in ck))
            hooks = knobs.get('hooks', {}).get(e.name)
            if hooks:
                lines.append(hooks)
            lines.append('')
        return '\n'.join(lines)


class MObj(object):
    __slots__ = ('mid', 'ent', 'vals', 'pk', 'stored', 'deleted')

    def __init__(self, mid, ent):
        self.mid = mid
        self.ent = ent            # entity name
        self.vals = {}            # scalar attribute values
        self.pk = None            # tuple of raw pk values once known
        self.stored = False       # exists in the database (as of the view's transaction)
        self.deleted = False

    def __repr__(self):
        return '<%s#%d pk=%r%s>' % (self.ent, self.mid, self.pk, ' deleted' if self.deleted else '')


class View(object):
    """A consistent state: objects + relationship pair sets."""

    def __init__(self, schema):
        self.schema = schema
        self.objs = {}            # mid -> MObj
        self.rels = {}            # canonical key (ent, attr) -> set of (a_mid, b_mid)
        for e in schema.entities:
            for a in e.attrs:
                if a.is_rel and self.canon(a) == (a.ent.name, a.name):
                    self.rels[(a.ent.name, a.name)] = set()

    def clone(self):
        v = View.__new__(View)
        v.schema = self.schema
        v.objs = {}
        for mid, o in self.objs.items():
            c = MObj(o.mid, o.ent)
            c.vals = dict(o.vals)
            c.pk = o.pk
            c.stored = o.stored
            c.deleted = o.deleted
            v.objs[mid] = c
        v.rels = dict((k, set(s)) for k, s in self.rels.items())
        return v

    # ---- relationship plumbing
    @staticmethod
    def canon(a):
        """canonical side of the relationship that attribute `a` belongs to"""
        r = a.reverse
        ka, kr = (a.ent.name, a.name), (r.ent.name, r.name)
        return min(ka, kr)

    def symmetric(self, a):
        return a.reverse is a

    def pairs(self, a):
        return self.rels[self.canon(a)]

    def _orient(self, a, x, y):
        """pair as stored: (canonical-side object, other-side object)"""
        if self.symmetric(a):
            return (x, y)
        if self.canon(a) == (a.ent.name, a.name):
            return (x, y)
        return (y, x)

    def partners(self, a, x):
        """mids related to object x through attribute a"""
        ps = self.pairs(a)
        if self.symmetric(a):
            return set(q for (p, q) in ps if p == x) | set(p for (p, q) in ps if q == x)
        if self.canon(a) == (a.ent.name, a.name):
            return set(q for (p, q) in ps if p == x)
        return set(p for (p, q) in ps if q == x)

    def get_one(self, a, x):
        ps = self.partners(a, x)
        if not ps:
            return None
        assert len(ps) == 1, (a, x, ps)
        return next(iter(ps))

    def link(self, a, x, y):
        ps = self.pairs(a)
        if self.symmetric(a):
            if (y, x) in ps:
                return
        ps.add(self._orient(a, x, y))

    def unlink(self, a, x, y):
        ps = self.pairs(a)
        ps.discard(self._orient(a, x, y))
        if self.symmetric(a):
            ps.discard((y, x))

    def live(self, ent=None, exact=False):
        return [o for o in self.objs.values() if not o.deleted and (ent is None or o.ent == ent or
                                                                   (not exact and self._is_sub(o.ent, ent)))]

    # ---- Pony's algorithms on the model (appendix A2, A4, A5, A6)
    def set_to_one(self, x, a, new, depth=0):
        """x.a = new  (direct call; a is a to-one relationship attribute; new is a mid or None)"""
        old = self.get_one(a, x)
        if old == new:
            return
        r = a.reverse
        if a.is_pk and old is not None:
            raise Refuse('%r is (part of) the primary key and cannot change' % a)
        if a.required and new is None:
            raise Refuse('%r is required' % a)
        if not r.is_set:
            # one-to-one (A4)
            if old is not None:
                if a.cascade:
                    self.unlink(a, x, old)
                    self.delete(old, depth + 1)
                elif r.required:
                    raise Refuse('cannot unlink %r from previous object: %r is required' % (old, r))
                else:
                    self.unlink(a, x, old)
            if new is not None:
                a0 = self.get_one(r, new)
                if a0 is not None and a0 != x:
                    if a.required:
                        raise Refuse('cannot unlink %r: %r is required' % (a0, a))
                    if r.is_pk:
                        raise Refuse('%r is (part of) the primary key of %r and cannot change' % (r, new))
                    self.unlink(r, new, a0)
                self.link(a, x, new)
        else:
            # many-to-one: move between collections
            if old is not None:
                self.unlink(a, x, old)
            if new is not None:
                self.link(a, x, new)

    def coll_remove(self, x, a, items):
        """remove items from x.a (a is a Set)"""
        r = a.reverse
        cur = self.partners(a, x)
        items = [i for i in items if i in cur]
        if not r.is_set:
            for i in items:
                if a.cascade:
                    self.unlink(a, x, i)
                    self.delete(i, 1)
                else:
                    if r.required:
                        raise Refuse('%r is required' % r)
                    self.unlink(a, x, i)
        else:
            for i in items:
                self.unlink(a, x, i)

    def coll_add(self, x, a, items):
        r = a.reverse
        cur = self.partners(a, x)
        for i in items:
            if i in cur:
                continue
            if not r.is_set:
                prev = self.get_one(r, i)
                if prev is not None:
                    self.unlink(r, i, prev)
            self.link(a, x, i)

    def coll_assign(self, x, a, items):
        cur = self.partners(a, x)
        new = set(items)
        self.coll_remove(x, a, sorted(cur - new))
        self.coll_add(x, a, sorted(new - cur))

    def delete(self, x, depth=0):
        """Entity._delete_ (A2)"""
        o = self.objs[x]
        if o.deleted:
            return
        if depth > 50:
            raise Refuse('cascade too deep')
        ent = self.schema.by_name[o.ent]
        # mark first so that cycles terminate; Pony marks at the end but recursion on the same object returns early
        # only through status - a cascade cycle back to x would recurse forever in Pony as well, so schemas avoid it
        trace = getattr(self, 'trace', None)
        for a in ent.sets():
            members = self.partners(a, x)
            if not members:
                continue
            if trace is not None:
                trace.append((x, a))
            if a.cascade:
                for m in sorted(members):
                    self.delete(m, depth + 1)
            elif not a.reverse.required:
                self.coll_assign(x, a, [])
            else:
                raise Refuse('cannot delete %r: non-empty %r and cascade_delete is not set' % (o, a))
        for a in ent.to_ones():
            r = a.reverse
            val = self.get_one(a, x)
            if val is None:
                continue
            if trace is not None:
                trace.append((x, a))
            if not r.is_set:
                if a.cascade:
                    self.unlink(a, x, val)
                    self.delete(val, depth + 1)
                elif not r.required:
                    self.unlink(a, x, val)
                else:
                    raise Refuse('cannot delete %r: associated %r and cascade_delete is not set' % (o, a))
            else:
                self.unlink(a, x, val)
        o.deleted = True
        # drop any remaining pairs that mention x (cascade-deleted members are gone with their links)
        for k, ps in self.rels.items():
            dead = [p for p in ps if p[0] == x or p[1] == x]
            # only pairs of relationships x takes part in can mention it
            for p in dead:
                if self._pair_involves(k, p, x):
                    ps.discard(p)

    def db_bulk_delete(self, ent_name, mids, has_column=None):
        """What one `DELETE FROM <table> WHERE ...` does to stored rows under the foreign keys Pony declares
        (Database.generate_mapping): ON DELETE CASCADE where the referenced side's attribute cascades, SET NULL for
        optional references, otherwise the statement fails when a referring row is left (checked at statement
        end); link tables cascade.  Returns False (view untouched) when the statement fails."""
        has_column = has_column or self._has_column
        doomed = set(mids)
        nulled = []
        work = list(doomed)
        restrict = []
        while work:
            d = work.pop()
            od = self.objs[d]
            for e in self.schema.entities:
                for a in e.to_ones():
                    if not (a.rel == od.ent or self._is_sub(od.ent, a.rel)) or not has_column(a):
                        continue
                    for s in self.partners(a.reverse, d):
                        if s in doomed:
                            continue
                        if a.reverse.cascade:
                            doomed.add(s)
                            work.append(s)
                        elif not a.required:
                            nulled.append((a, s, d))
                        else:
                            restrict.append((s, a))
        if any(s not in doomed for (s, a) in restrict):
            return False
        for (a, s, d) in nulled:
            if s not in doomed:
                self.unlink(a, s, d)
        for d in doomed:
            self.objs[d].deleted = True
        for k, ps in self.rels.items():
            for p in [p for p in ps if (p[0] in doomed and self._pair_involves(k, p, p[0])) or
                      (p[1] in doomed and self._pair_involves(k, p, p[1]))]:
                ps.discard(p)
        return True

    def _pair_involves(self, key, pair, x):
        ent, attr = key
        a = self.schema.by_name[ent].by_name[attr]
        o = self.objs[x]
        if pair[0] == x and (o.ent == a.ent.name or self._is_sub(o.ent, a.ent.name)):
            return True
        if pair[1] == x and (o.ent == a.reverse.ent.name or self._is_sub(o.ent, a.reverse.ent.name)):
            return True
        return False

    def _is_sub(self, ent, base):
        e = self.schema.by_name[ent]
        while e.base:
            if e.base == base:
                return True
            e = self.schema.by_name[e.base]
        return False

    # ---- key helpers
    def key_conflict(self, ent_name, attrs, vals, but=None):
        """mid of a live object of the entity holding the same (all non-None) key value, or None"""
        if any(v is None for v in vals):
            return None
        for o in self.live(ent_name):
            if o.mid == but:
                continue
            if tuple(o.vals.get(a) for a in attrs) == tuple(vals):
                return o.mid
        return None

    # ---- dump in comparable form
    def table_rows(self):
        """{entity: {pk: {scalar attr: value, to-one attr: partner pk}}}, m2m: {(ent, attr): set of (pk, pk)}"""
        out = {}
        m2m = {}
        for e in self.schema.entities:
            rows = {}
            for o in self.live(e.name, exact=True):
                row = dict(o.vals)
                for a in e.to_ones():
                    if self._has_column(a):
                        p = self.get_one(a, o.mid)
                        row[a.name] = self.objs[p].pk if p is not None else None
                rows[o.pk] = row
            out[e.name] = rows
            for a in e.sets():
                if a.reverse.is_set and self.canon(a) == (e.name, a.name):
                    s = set()
                    for (p, q) in self.pairs(a):
                        s.add((self.objs[p].pk, self.objs[q].pk))
                    m2m[(e.name, a.name)] = s
        return out, m2m

    @staticmethod
    def _has_column(a):
        """which side of a to-one relationship holds the foreign key column"""
        r = a.reverse
        if r.is_set:
            return True
        # one-to-one: Pony puts the column on the Required side; if both Optional, on the side whose
        # entity name sorts first ... the engine asks Pony's metadata instead (attr.columns); this is a fallback
        if a.required and not r.required:
            return True
        if r.required and not a.required:
            return False
        return (a.ent.name, a.name) < (r.ent.name, r.name)
