"""One integer decides everything: splitmix64-derived named sub-streams."""
import hashlib

MASK = (1 << 64) - 1


def splitmix64(x):
    x = (x + 0x9E3779B97F4A7C15) & MASK
    z = x
    z = ((z ^ (z >> 30)) * 0xBF58476D1CE4E5B9) & MASK
    z = ((z ^ (z >> 27)) * 0x94D049BB133111EB) & MASK
    return z ^ (z >> 31)


def derive(seed, *names):
    """Derive a 64-bit seed from a parent seed and a path of names/ints."""
    h = hashlib.blake2b(digest_size=8)
    h.update(str(int(seed) & MASK).encode())
    for n in names:
        h.update(b'/')
        h.update(str(n).encode())
    return int.from_bytes(h.digest(), 'big')


class Rng(object):
    """Small, fast, self-contained PRNG (xorshift64* over a splitmix-seeded
    state).  Not `random.Random` on purpose: nothing else in the process can
    draw from it by accident, and its stream is stable across Python versions."""
    __slots__ = ('s', 'draws')

    def __init__(self, seed, *names):
        s = derive(seed, *names) if names else (int(seed) & MASK)
        s = splitmix64(s)
        self.s = s or 0x2545F4914F6CDD1D
        self.draws = 0

    def next64(self):
        x = self.s
        x ^= (x >> 12)
        x ^= (x << 25) & MASK
        x ^= (x >> 27)
        self.s = x
        self.draws += 1
        return (x * 0x2545F4914F6CDD1D) & MASK

    def below(self, n):
        if n <= 0:
            raise ValueError('below(%r)' % (n,))
        return self.next64() % n

    def randint(self, a, b):
        return a + self.below(b - a + 1)

    def random(self):
        return (self.next64() >> 11) / float(1 << 53)

    def chance(self, p):
        return self.random() < p

    def choice(self, seq):
        return seq[self.below(len(seq))]

    def weighted(self, pairs):
        """pairs: list of (item, weight>=0)."""
        total = sum(w for _, w in pairs)
        if total <= 0:
            return pairs[0][0]
        r = self.random() * total
        acc = 0.0
        for item, w in pairs:
            acc += w
            if r < acc:
                return item
        return pairs[-1][0]

    def shuffle(self, lst):
        for i in range(len(lst) - 1, 0, -1):
            j = self.below(i + 1)
            lst[i], lst[j] = lst[j], lst[i]
        return lst

    def sample(self, seq, k):
        lst = list(seq)
        self.shuffle(lst)
        return lst[:k]

    def sub(self, *names):
        return Rng(self.s, *names)
