"""Sensitivity self-test: run the checks against the seeded breakages in /verif/seeded.

Each seeded/<name>/ holds patch.diff (a change to ponyorm/pony that breaks one
property while compiling and passing the repository's tests), demo.py (passes
on the clean tree, fails with the change) and meta.json.  For every seed this
tool copies /repo's working tree to a scratch directory outside /repo and
/verif, applies the patch there, runs the demo against both trees and the
property's check against the patched copy (VERIF_REPO), and deletes the copy.
Nothing in /repo is touched; evidence and replay files of these runs go to the
scratch directory, not to /verif.
"""
import json
import os
import shutil
import subprocess
import sys
import time

from . import env


def _copy_repo(dst):
    src = env.repo_dir()
    os.makedirs(dst, exist_ok=True)
    for name in os.listdir(src):
        if name in ('.git', '__pycache__', '.pytest_cache'):
            continue
        s = os.path.join(src, name)
        d = os.path.join(dst, name)
        if os.path.isdir(s):
            shutil.copytree(s, d, ignore=shutil.ignore_patterns('__pycache__', '*.pyc'))
        else:
            shutil.copy2(s, d)


def run_seed(name, budget_s, tier='quick', verbose=True):
    sdir = os.path.join(env.VERIF_DIR, 'seeded', name)
    meta = json.load(open(os.path.join(sdir, 'meta.json')))
    prop = meta['property']
    out = {'seed': name, 'property': prop}
    root = os.path.join(env.scratch_root(), 'ponysim-%d.mut' % os.getpid(), name)
    shutil.rmtree(root, ignore_errors=True)
    tree = os.path.join(root, 'tree')
    try:
        _copy_repo(tree)
        r = subprocess.run(['patch', '-p1', '--no-backup-if-mismatch', '-i', os.path.join(sdir, 'patch.diff')],
                           cwd=tree, capture_output=True, text=True)
        if r.returncode != 0:
            out['status'] = 'patch-does-not-apply'
            out['detail'] = (r.stdout + r.stderr)[-500:]
            return out
        demo = os.path.join(sdir, 'demo.py')
        if os.path.exists(demo) and not meta.get('demo_stale'):
            # (demo_stale: a later fix: commit took the demo's scenario away while the change still breaks the property
            # on another path - the check decides alone, the meta.json says why)
            e = dict(os.environ, PYTHONDONTWRITEBYTECODE='1')
            # (older demos take the tree as argv[1], newer ones rely on PYTHONPATH)
            r0 = subprocess.run([sys.executable, demo, env.repo_dir()], capture_output=True, text=True, timeout=300,
                                cwd=root, env=dict(e, PYTHONPATH=env.repo_dir()))
            r1 = subprocess.run([sys.executable, demo, tree], capture_output=True, text=True, timeout=300,
                                cwd=root, env=dict(e, PYTHONPATH=tree))
            out['demo_clean_rc'] = r0.returncode
            out['demo_patched_rc'] = r1.returncode
            if r0.returncode != 0 or r1.returncode == 0:
                out['status'] = 'demo-not-discriminating'
                out['detail'] = 'clean: %s | patched: %s' % (r0.stdout[-300:], r1.stdout[-300:])
                return out
        check_prop = meta.get('check_property', prop)
        e = dict(os.environ, VERIF_REPO=tree, PONYSIM_OUT_DIR=root)
        e.pop('VERIF_BUDGET_S', None)
        if budget_s:
            e['VERIF_BUDGET_S'] = str(budget_s)     # else: the registered quick tier (fixed number of cases)
        t0 = time.time()
        r = subprocess.run([sys.executable, '-m', 'ponysim', 'check', '--property', check_prop, '--tier', tier],
                           cwd=env.VERIF_DIR, capture_output=True, text=True, env=e, timeout=3600)
        out['check_rc'] = r.returncode
        out['check_wall_s'] = round(time.time() - t0, 1)
        keys = [l.strip()[5:] for l in r.stdout.splitlines() if l.strip().startswith('key: ')]
        out['violation_keys'] = keys[:6]
        out['status'] = 'caught' if r.returncode == 1 and 'VIOLATION property=%s' % check_prop in r.stdout else (
            'harness-error' if r.returncode == 2 else 'missed')
        if out['status'] != 'caught':
            out['detail'] = r.stdout[-1500:] + r.stderr[-500:]
        return out
    finally:
        shutil.rmtree(root, ignore_errors=True)
        try:
            os.rmdir(os.path.dirname(root))
        except OSError:
            pass


def mutants(args):
    base = os.path.join(env.VERIF_DIR, 'seeded')
    names = args.names or sorted(n for n in os.listdir(base) if os.path.isdir(os.path.join(base, n)))
    budget = float(os.environ.get('VERIF_MUTANT_BUDGET_S', '0'))
    results = []
    for n in names:
        r = run_seed(n, budget)
        results.append(r)
        print('%-10s %-4s %-28s rc=%s %ss %s' % (n, r['property'], r['status'], r.get('check_rc'),
                                               r.get('check_wall_s'), (r.get('violation_keys') or [''])[0][:110]))
        if r['status'] not in ('caught',) and r.get('detail'):
            print('    ' + r['detail'].replace('\n', '\n    ')[-1200:])
        sys.stdout.flush()
    path = os.path.join(base, 'results.json')
    old = {}
    if os.path.exists(path):
        try:
            old = dict((r['seed'], r) for r in json.load(open(path)))
        except Exception:
            old = {}
    for r in results:
        r.pop('detail', None)
        old[r['seed']] = r
    with open(path, 'w') as f:
        json.dump([old[k] for k in sorted(old)], f, indent=1, sort_keys=True)
    return 0


def determinism(args):
    """Stand-alone determinism sweep: many seeds, each run in three differently configured pools."""
    import importlib
    from .pool import Pool
    from . import harness
    env.import_pony()
    seed = args.seed if args.seed is not None else harness.seed_from_env()
    gens = []
    for modname in ('c22', 'c20', 'c21', 'c35', 'c14', 'c19b'):
        try:
            m = importlib.import_module('ponysim.checks.' + modname)
        except ImportError:
            continue
        gens.append((modname, m.gen_case))
    cases = []
    for i in range(args.n):
        name, g = gens[i % len(gens)]
        try:
            c = g(seed, i, 'quick', False)
        except TypeError:
            c = g(seed, i, 'quick')
        cases.append(c)
    digests = []
    cfgs = [dict(workers=16, hashseed='0', use_setarch=True), dict(workers=3, hashseed='1', use_setarch=False),
            dict(workers=5, hashseed='7', use_setarch=True)]
    for ci, cfg in enumerate(cfgs):
        with Pool(tag='%d.det%d' % (os.getpid(), ci), **cfg) as p:
            res = p.map([dict(c) for c in cases])
        digests.append([r.get('digest') or r.get('harness_error', '')[-200:] for r in res])
    bad = 0
    for i, c in enumerate(cases):
        ds = set(d[i] for d in digests)
        if len(ds) != 1:
            bad += 1
            print('MISMATCH case %d mode=%s: %s' % (i, c.get('mode'), [d[i] for d in digests]))
    print('determinism: %d cases x %d configurations, %d mismatches' % (len(cases), len(cfgs), bad))
    return 2 if bad else 0
