"""Code objects inside which Python *line* events are pre-emption points.

Names are resolved by attribute lookup at start-up; a name that no longer
resolves is a loud error (HARNESS-ERROR), never a silent loss of coverage.
"""

QUICK = [
    'pony.orm.core:Query.__init__',
    'pony.orm.core:Query._get_translator',
    'pony.orm.core:Query._construct_sql_and_arguments',
    'pony.orm.core:Query._process_lambda',
    'pony.orm.core:Query._apply_kwargs',
    'pony.orm.core:Query._actual_fetch',
    'pony.orm.core:extract_vars',
    'pony.orm.core:adapt_sql',
    'pony.orm.core:string2ast',
    'pony.orm.core:make_query',
    'pony.orm.core:Database._exec_raw_sql',
    'pony.orm.core:Database.merge_local_stats',
    'pony.orm.core:Database._update_local_stat',
    'pony.orm.core:Database.insert',
    'pony.orm.asttranslation:create_extractors',
    'pony.orm.decompiling:decompile',
    'pony.orm.ormtypes:parse_raw_sql',
    'pony.utils.utils:get_codeobject_id',
    'pony.utils.utils:get_lambda_args',
    'pony.orm.core:EntityMeta._construct_sql_',
    'pony.orm.core:EntityMeta._construct_batchload_sql_',
    'pony.orm.core:EntityMeta._find_by_sql_',
    'pony.orm.core:Attribute.load',
    'pony.orm.core:Set.load',
    'pony.orm.core:Set.construct_sql_m2m',
    'pony.orm.core:Entity._save_created_',
    'pony.orm.core:Entity._save_updated_',
    'pony.orm.core:Entity._save_deleted_',
    'pony.orm.dbproviders.sqlite:SQLiteProvider.acquire_lock',
    'pony.orm.dbproviders.sqlite:SQLiteProvider.set_transaction_mode',
    'pony.orm.dbapiprovider:Pool.connect',
    # the translation itself: one translator is being built per thread, monads look up "the current translator"
    'pony.orm.sqltranslation:SQLTranslator.__init__',
    'pony.orm.sqltranslation:SQLTranslator.init',
    'pony.orm.sqltranslation:SQLTranslator.dispatch',
    'pony.orm.sqltranslation:SQLTranslator.dispatch_external',
    # the pass that annotates the (process-wide, cached) syntax tree of a query in place
    'pony.orm.asttranslation:PreTranslator.dispatch',
]

THOROUGH_EXTRA = [
    'pony.orm.core:Query._order_by',
    'pony.orm.core:Query._reapply_filters',
    'pony.orm.core:Set.remove_m2m',
    'pony.orm.core:Set.add_m2m',
    'pony.orm.core:SessionCache.connect',
    'pony.orm.core:SessionCache.close',
    'pony.orm.core:SessionCache.commit',
    'pony.orm.dbproviders.sqlite:SQLiteProvider.commit',
    'pony.orm.dbproviders.sqlite:SQLiteProvider.rollback',
    'pony.orm.dbproviders.sqlite:SQLiteProvider.release_lock',
]


def resolve(names):
    import importlib
    out = []
    for n in names:
        modname, path = n.split(':')
        obj = importlib.import_module(modname)
        for part in path.split('.'):
            obj = getattr(obj, part)          # AttributeError => loud failure
        obj = getattr(obj, '__wrapped__', obj)
        code = getattr(obj, '__code__', None)
        if code is None and hasattr(obj, '__func__'):
            code = obj.__func__.__code__
        if code is None:
            raise RuntimeError('preempt whitelist: %s has no code object' % n)
        out.append(code)
    return out
