"""Environment: which tree is under test, re-exec under setarch -R / PYTHONHASHSEED=0."""
import os
import sys

VERIF_DIR = os.path.dirname(os.path.dirname(os.path.abspath(__file__)))
GUARD = 'PONY_VERIF_SIM'


def repo_dir():
    return os.path.abspath(os.environ.get('VERIF_REPO', '/repo'))


def scratch_root():
    # tmpfs; never /tmp, never under /repo or /verif
    base = os.environ.get('PONYSIM_SCRATCH', '/dev/shm')
    if not os.path.isdir(base):
        base = '/var/tmp'
    return base


_pony = None


def import_pony():
    """Import pony from VERIF_REPO and assert that is where it came from."""
    global _pony
    if _pony is not None:
        return _pony
    rd = repo_dir()
    os.environ[GUARD] = '1'
    if sys.path[0] != rd:
        sys.path.insert(0, rd)
    import pony
    got = os.path.dirname(os.path.dirname(os.path.abspath(pony.__file__)))
    if os.path.realpath(got) != os.path.realpath(rd):
        raise RuntimeError('pony imported from %s, expected %s' % (got, rd))
    _pony = pony
    return pony


def worker_env(hashseed='0'):
    env = dict(os.environ)
    env['PYTHONHASHSEED'] = hashseed
    env['PYTHONPATH'] = VERIF_DIR + (os.pathsep + env['PYTHONPATH'] if env.get('PYTHONPATH') else '')
    env['PYTHONDONTWRITEBYTECODE'] = '1'
    env[GUARD] = '1'
    return env


_setarch_ok = None


def setarch_prefix():
    """['setarch', 'x86_64', '-R'] if it works here, else []."""
    global _setarch_ok
    if os.environ.get('PONYSIM_NO_SETARCH'):
        return []
    if _setarch_ok is None:
        import subprocess
        try:
            r = subprocess.run(['setarch', 'x86_64', '-R', 'true'], stdout=subprocess.DEVNULL,
                               stderr=subprocess.DEVNULL, timeout=10)
            _setarch_ok = (r.returncode == 0)
        except Exception:
            _setarch_ok = False
    return ['setarch', 'x86_64', '-R'] if _setarch_ok else []


def repo_head():
    import subprocess
    rd = repo_dir()
    try:
        head = subprocess.run(['git', '-C', rd, 'rev-parse', 'HEAD'], capture_output=True, text=True,
                              timeout=20).stdout.strip()
        dirty = bool(subprocess.run(['git', '-C', rd, 'status', '--porcelain', '--untracked-files=no'],
                                    capture_output=True, text=True, timeout=20).stdout.strip())
        return head, dirty
    except Exception:
        return 'unknown', False
