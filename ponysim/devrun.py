"""Developer helper: run one case in-process (no pool) and print the result."""
import json
import os
import sys


def run(case):
    from . import env, simdb, engines, procstate, worker
    env.import_pony()
    simdb.install()
    engines.preload()
    procstate.install()
    scratch = os.path.join(env.scratch_root(), 'ponysim-%d-dev' % os.getpid())
    os.makedirs(scratch, exist_ok=True)
    try:
        return worker.execute(case, scratch)
    finally:
        import shutil
        shutil.rmtree(scratch, ignore_errors=True)


if __name__ == '__main__':
    case = json.loads(sys.argv[1]) if not os.path.exists(sys.argv[1]) else json.load(open(sys.argv[1]))
    if 'case' in case and 'format' in case:
        case = case['case']
    print(json.dumps(run(case), indent=1, sort_keys=True, default=repr))
