"""Check driver pieces shared by all properties: collecting results, known
findings, minimisation, fresh-process confirmation, replay files, evidence."""
import hashlib
import json
import os
import sys
import time

from . import env
from .pool import Pool, sweep_stale
from .prng import splitmix64

DEFAULT_SEED = 20260921
MAX_REPORTED = 6


def hsh(obj):
    return hashlib.blake2b(json.dumps(obj, sort_keys=True, default=repr).encode('utf-8'),
                           digest_size=8).hexdigest()


def load_known():
    p = os.path.join(env.VERIF_DIR, 'known_findings.json')
    try:
        with open(p) as f:
            data = json.load(f)
    except FileNotFoundError:
        return []
    return data.get('findings', [])


class HarnessError(Exception):
    pass


class Collector(object):
    """Accumulates what a check run covered."""

    def __init__(self, property_id, level, tier, seed, rule):
        self.property_id = property_id
        self.level = level
        self.tier = tier
        self.seed = seed
        self.rule = rule
        self.t0 = time.time()
        _current.update(prop=property_id, tier=tier, drawn=0)
        self.foreign = {}           # violations of other properties seen by this batch (developer sweep only)
        self.evaluations = 0
        self.sigs = set()
        self.nontrivial_sigs = set()
        self.faults_fired = {}
        self.probes = {}
        self.stats = {}
        self.samples = []
        self.sample_limit = 5
        self.violations = {}        # key -> (case, viol)
        self.violating_cases = 0
        self.harness_errors = []
        self.interleavings = set()
        self.states = set()
        self.sim_time = 0.0
        self.extra = {}
        self.exhaustive = None
        self.det_sample = []        # (case, digest) reservoir for the determinism self-test
        self.det_limit = 16 if tier == 'quick' else 96
        self._det_seen = 0

    def add(self, case, res):
        self.evaluations += 1
        if 'harness_error' in res:
            self.harness_errors.append((case, res['harness_error']))
            return
        if res.get('digest') is not None and not case.get('isolate'):
            self._det_seen += 1
            if len(self.det_sample) < self.det_limit:
                self.det_sample.append((strip_case(case), res['digest']))
            else:
                # deterministic reservoir: replace slot by a hash of the running count
                j = splitmix64(self._det_seen) % self._det_seen
                if j < self.det_limit:
                    self.det_sample[j] = (strip_case(case), res['digest'])
        sig = res.get('sig')
        if sig is None:
            sig = hsh(dict((k, v) for k, v in case.items() if k not in ('_i', 'timeout')))
        self.sigs.add(sig)
        if res.get('nontrivial'):
            self.nontrivial_sigs.add(sig)
        for f in res.get('fired', ()):
            k = '%s@%s' % (f[4], f[3])
            self.faults_fired[k] = self.faults_fired.get(k, 0) + 1
        for k, v in (res.get('probes') or {}).items():
            if v:
                self.probes[k] = self.probes.get(k, 0) + int(v)
        for k, v in (res.get('stats') or {}).items():
            if isinstance(v, (int, float)):
                self.stats[k] = self.stats.get(k, 0) + v
        for h in res.get('interleavings', ()):
            self.interleavings.add(h)
        for h in res.get('states', ()):
            self.states.add(h)
        self.sim_time += res.get('sim_time', 0.0)
        if res.get('nontrivial') and len(self.samples) < self.sample_limit and res.get('sample') is not None:
            self.samples.append(res['sample'])
        if any(v.get('prop') == self.property_id for v in res.get('violations', ())):
            self.violating_cases += 1
        for v in res.get('violations', ()):
            if v.get('prop') != self.property_id:
                if os.environ.get('PONYSIM_DEV_SWEEP') and v.get('key') not in self.foreign:
                    self.foreign[v.get('key')] = (strip_case(case), v)
                continue
            key = v['key']
            if key not in self.violations:
                self.violations[key] = (case, v)

    def wall(self):
        return time.time() - self.t0


def strip_case(case):
    return dict((k, v) for k, v in case.items() if not k.startswith('_'))


def confirm_fresh(case, key, prop, tries=1):
    """Re-run the case in a brand-new worker process; True if the same violation key appears."""
    for _ in range(tries):
        with Pool(workers=1, tag='%d.r' % os.getpid()) as p:
            res = p.run_one(strip_case(case))
        if 'harness_error' in res:
            return False, res
        for v in res.get('violations', ()):
            if v.get('prop') == prop and v['key'] == key:
                return True, res
    return False, res


def determinism_selftest(col):
    """Re-run a sample of this batch's cases in brand-new workers under another string-hash
    seed, without setarch, at another worker count, and compare full event-log digests."""
    sample = col.det_sample
    if not sample:
        return {'pairs': 0, 'mismatches': 0}, []
    mismatches = []
    pairs = 0
    configs = [dict(workers=3, hashseed='1', use_setarch=False), dict(workers=2, hashseed='0', use_setarch=True)]
    for ci, cfg in enumerate(configs):
        part = sample[ci::len(configs)]
        if not part:
            continue
        with Pool(tag='%d.d%d' % (os.getpid(), ci), **cfg) as p:
            results = p.map([dict(c) for c, _ in part])
        for (c, d), r in zip(part, results):
            pairs += 1
            if r.get('digest') != d:
                mismatches.append((c, d, r.get('digest'), r.get('harness_error')))
    return {'pairs': pairs, 'mismatches': len(mismatches),
            'configs': ['PYTHONHASHSEED=1, no setarch, 3 workers', 'PYTHONHASHSEED=0, setarch -R, 2 workers']}, mismatches


def minimise(pool, engine_mod, case, key, prop, budget_runs=400, budget_s=60):
    """Greedy delta-debugging using the engine's one-step `shrink(case)` candidates,
    evaluated in parallel batches.  Accept a candidate only if the same key reproduces."""
    shrink = getattr(engine_mod, 'shrink', None)
    if shrink is None:
        return case, 0
    t0 = time.time()
    runs = 0
    cur = strip_case(case)
    progress = True
    while progress and runs < budget_runs and time.time() - t0 < budget_s:
        progress = False
        cands = list(shrink(cur))
        if not cands:
            break
        batch = max(1, len(pool.workers))
        for i in range(0, len(cands), batch):
            chunk = cands[i:i + batch]
            results = pool.map(chunk)
            runs += len(chunk)
            hit = None
            for c, r in zip(chunk, results):
                if 'harness_error' in r:
                    continue
                if any(v.get('prop') == prop and v['key'] == key for v in r.get('violations', ())):
                    hit = c
                    break
            if hit is not None:
                cur = strip_case(hit)
                progress = True
                break
            if runs >= budget_runs or time.time() - t0 >= budget_s:
                break
    return cur, runs


def write_replay(prop, key, case, detail, seed, minimise_runs):
    d = os.path.join(os.environ.get('PONYSIM_OUT_DIR', env.VERIF_DIR), 'replays', prop)
    os.makedirs(d, exist_ok=True)
    head, dirty = env.repo_head()
    path = os.path.join(d, hsh(key) + '.json')
    doc = {'format': 1, 'property': prop, 'seed': seed, 'repo_head': head, 'repo_dirty': dirty,
           'case': strip_case(case),
           'violation': {'key': key, 'detail': detail},
           'minimise_runs': minimise_runs}
    with open(path, 'w') as f:
        json.dump(doc, f, indent=1, sort_keys=True)
    return path


def finish(col, pool, engine_mod_for, coverage_extra=None, assumptions=None, components=None):
    """Classify violations, minimise + confirm the new ones, write evidence, print
    the verdict lines and return the exit code."""
    prop = col.property_id
    if os.environ.get('PONYSIM_DEV_SWEEP') and col.foreign:
        # developer aid: the SEQ engine evaluates the oracles of all its properties in every run
        with open(os.path.join(os.environ['PONYSIM_DEV_SWEEP'], 'foreign_%s.json' % prop), 'w') as f:
            json.dump(col.foreign, f, indent=1, sort_keys=True, default=repr)
    known = [k for k in load_known() if k.get('property') == prop]
    known_keys = dict((k['key'], k) for k in known if k.get('status') == 'known')
    reported = []
    known_seen = []
    nondeterministic = []
    extra_unconfirmed = []
    for key, (case, v) in sorted(col.violations.items()):
        kf = known_keys.get(key)
        if kf is not None:
            known_seen.append(key)
            print('KNOWN-FINDING: property=%s %s [%s]' % (prop, kf.get('what', ''), key))
            continue
        if len(reported) >= MAX_REPORTED:
            extra_unconfirmed.append(key)
            continue
        eng = engine_mod_for(case)
        small, runs = minimise(pool, eng, case, key, prop)
        ok, res = confirm_fresh(small, key, prop)
        if not ok:
            ok2, res2 = confirm_fresh(case, key, prop)
            if ok2:
                small, ok = case, True
        if not ok:
            nondeterministic.append((key, case, v))
            continue
        path = write_replay(prop, key, small, v.get('detail', ''), col.seed, runs)
        reported.append((key, path, v))
    det, det_mismatches = determinism_selftest(col)
    wall = col.wall()
    cov = {
        'determinism': det,
        'evaluations': col.evaluations,
        'distinct_nontrivial': len(col.nontrivial_sigs),
        'distinct_cases': len(col.sigs),
        'rule': col.rule,
        'samples': col.samples[:col.sample_limit],
        'faults_fired': col.faults_fired,
        'probes': col.probes,
        'stats': col.stats,
        'distinct_interleavings': len(col.interleavings),
        'distinct_states': len(col.states),
        'sim_time_s': round(col.sim_time, 3),
        'runs_per_hour': int(col.evaluations / wall * 3600) if wall > 0 else 0,
        'known_findings_seen': known_seen,
        'harness_errors': len(col.harness_errors),
        'components': components or {},
    }
    if col.exhaustive is not None:
        cov['exhaustive'] = bool(col.exhaustive)
    cov.update(col.extra)
    if coverage_extra:
        cov.update(coverage_extra)
    ev = {
        'property_id': prop, 'tier': col.tier, 'seed': col.seed, 'level': col.level,
        'coverage': cov, 'assumptions': assumptions or [], 'wall_s': round(wall, 3),
        'violations': len(reported),
    }
    evdir = os.path.join(os.environ.get('PONYSIM_OUT_DIR', env.VERIF_DIR), 'evidence')
    os.makedirs(evdir, exist_ok=True)
    with open(os.path.join(evdir, prop + '.json'), 'w') as f:
        json.dump(ev, f, indent=1, sort_keys=True, default=repr)
    print('%s tier=%s seed=%d evaluations=%d distinct_nontrivial=%d wall=%.1fs faults=%d known=%d%s'
          % (prop, col.tier, col.seed, col.evaluations, len(col.nontrivial_sigs), wall,
             sum(col.faults_fired.values()), len(known_seen),
             (' violating_cases=%d' % col.violating_cases) if col.violating_cases else ''))
    for p, n in sorted(col.probes.items()):
        pass
    rc = 0
    if col.harness_errors:
        print('HARNESS-ERROR: %d run(s) failed inside the harness; first: %s'
              % (len(col.harness_errors), col.harness_errors[0][1][-1500:]))
        print('  case: %s' % json.dumps(strip_case(col.harness_errors[0][0]), sort_keys=True)[:1500])
        rc = 2
    for c, d1, d2, he in det_mismatches[:3]:
        print('HARNESS-ERROR nondeterministic: digest %s in the batch, %s in a fresh worker%s'
              % (d1, d2, ' (harness error: %s)' % he[-500:] if he else ''))
        print('  case: %s' % json.dumps(c, sort_keys=True)[:1500])
        rc = 2
    for key, case, v in nondeterministic:
        print('HARNESS-ERROR nondeterministic: violation %s did not reproduce in a fresh process (%s)'
              % (key, v.get('detail', '')[:300]))
        print('  case: %s' % json.dumps(strip_case(case), sort_keys=True)[:1500])
        rc = 2
    for key, path, v in reported:
        print('VIOLATION property=%s replay=%s' % (prop, path))
        print('  key: %s' % key)
        print('  detail: %s' % v.get('detail', '')[:600])
        rc = 1
    if extra_unconfirmed:
        print('  (+%d further distinct violation keys of %s not minimised: %s ...)'
              % (len(extra_unconfirmed), prop, '; '.join(extra_unconfirmed[:5])))
    return rc


def tier_from_env(default='quick'):
    return os.environ.get('VERIF_TIER', default)


def seed_from_env():
    try:
        return int(os.environ.get('VERIF_SEED', DEFAULT_SEED))
    except ValueError:
        return DEFAULT_SEED


def budget_s(tier, quick=150, thorough=540):
    v = os.environ.get('VERIF_BUDGET_S')
    if v:
        try:
            return float(v)
        except ValueError:
            pass
    return quick if tier == 'quick' else thorough


# The quick tier draws a fixed number of cases (the first N of the seeded stream), so that what it explores is a
# function of VERIF_SEED and the code and not of the machine's speed; the wall-clock budget stays as the upper bound
# (150 s: a machine more than three times slower explores a prefix).  Sized at about four fifths of what 16 workers
# do in 45 s; for C13
# and C17 the number counts base histories, each of which is followed by all of its fault variants.
QUICK_CASES = {'C05': 14000, 'C09': 36000, 'C10': 36000, 'C11': 36000, 'C12': 36000, 'C13': 1900, 'C14': 22000,
               'C15': 36000, 'C16': 36000, 'C17': 1400, 'C19': 13000, 'C20': 15000, 'C21': 13000, 'C22': 6000,
               'C23': 36000, 'C32': 32000, 'C33': 34000, 'C35': 15000}
_current = {'prop': None, 'tier': None, 'drawn': 0}


def case_cap():
    v = os.environ.get('VERIF_MAX_CASES')
    if v:
        try:
            return int(v) or None
        except ValueError:
            pass
    if _current['tier'] == 'quick' and not os.environ.get('VERIF_BUDGET_S'):
        return QUICK_CASES.get(_current['prop'])
    return None


def timed_cases(gen, deadline):
    """Stop drawing cases once the wall-clock deadline has passed or the tier's case count is reached."""
    cap = case_cap()
    for case in gen:
        if time.time() >= deadline or (cap is not None and _current['drawn'] >= cap):
            return
        _current['drawn'] += 1
        yield case
