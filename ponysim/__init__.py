"""ponysim - deterministic simulation with fault injection for Pony ORM.

See /verif/DESIGN.md.  Nothing in here imports `pony` at module import time
except through `ponysim.env.import_pony()`, so that VERIF_REPO decides which
tree is under test.
"""
