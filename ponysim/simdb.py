"""DB-API seam: a proxy for the `sqlite3` module as seen by pony.orm.dbproviders.sqlite.

Every call Pony makes on a connection or cursor goes through here: it is logged,
may be replaced by an injected fault, is a pre-emption point for the scheduler,
and may be a crash-snapshot point.
"""
import os
import sqlite3 as _sqlite3
import threading
import types

from . import simsched

FAULT_KINDS = ('busy', 'ioerr', 'ioerr_rb', 'full', 'cantopen', 'connlost', 'progerr', 'kbint', 'memerr')

_MESSAGES = {
    'busy': 'database is locked',
    'ioerr': 'disk I/O error',
    'ioerr_rb': 'disk I/O error',
    'full': 'database or disk is full',
    'cantopen': 'unable to open database file',
    'connlost': 'connection lost',
    'progerr': 'Cannot operate on a closed database.',
}


_conn_of = {}


class InjectedFault(object):
    """Marker mixed into injected exceptions (attribute only; class identity is sqlite3's)."""


def make_fault_exc(kind):
    if kind == 'kbint':
        e = KeyboardInterrupt('injected')
    elif kind == 'memerr':
        e = MemoryError('injected')
    elif kind == 'progerr':
        e = _sqlite3.ProgrammingError(_MESSAGES[kind])
    else:
        e = _sqlite3.OperationalError(_MESSAGES[kind])
    e.ponysim_injected = kind
    return e


class Ctx(object):
    """Per-run simulation context (one per child process)."""

    def __init__(self):
        self.reset()

    def reset(self):
        self.events = []          # dicts
        self.g = 0
        self.conns = []
        self.thread_k = {}
        self.faults = {}          # (thread, k) -> kind      -- per-thread call index in current phase
        self.gfaults = {}         # g -> kind                -- global call index (single-thread engines)
        self.fired = []           # [g, thread, k, callkind, faultkind]
        self.phase = 'setup'      # setup | main | probe
        self.snapshot = None      # callable(g, ev) -> None, crash snapshots
        self.before_call = None   # callable(ev) for engines (e.g. external-writer triggers)
        self.after_call = None
        self.busy_retries = 50
        self.sim_time = 0.0
        self.closed_use = []      # statements on closed connections
        self.foreign_pid_use = []
        self.log_params = True
        self.record = True
        self.busy_seen = 0
        self.busy_expired = 0
        self.observations = []
        self.fault_filter = None   # callable(ev, requested) -> actual fault kind or None
        _conn_of.clear()

    def thread_name(self):
        s = simsched.current_scheduler()
        if s is not None and s.active:
            t = s.current_sim_thread()
            if t is not None:
                return t.name
        return 'M'


ctx = Ctx()


def _sql_head(sql):
    if not isinstance(sql, str):
        return repr(sql)[:60]
    return ' '.join(sql.split())


def _norm_params(params):
    if params is None:
        return None
    try:
        if isinstance(params, dict):
            return sorted((k, repr(v)[:80]) for k, v in params.items())
        return [repr(v)[:80] for v in params]
    except Exception:
        return ['<unrepr>']


def _intercept(conn, kind, sql=None, params=None, many=False, cursor=None):
    """Common prologue.  Returns the event dict; raises an injected fault."""
    c = ctx
    thread = c.thread_name()
    g = c.g
    c.g += 1
    k = c.thread_k.get(thread, 0)
    c.thread_k[thread] = k + 1
    ev = {'g': g, 't': thread, 'k': k, 'c': conn.cid if conn is not None else -1, 'kind': kind,
          'phase': c.phase}
    if sql is not None:
        ev['sql'] = _sql_head(sql)
    if params is not None and c.log_params:
        if many:
            rows = sorted(repr(_norm_params(p)) for p in params)
            ev['rows'] = rows
        else:
            ev['params'] = _norm_params(params)
    if c.record:
        c.events.append(ev)
    if conn is not None:
        _conn_of[g] = conn
        pid = os.getpid()
        if conn.pid != pid:
            c.foreign_pid_use.append({'g': g, 'conn': conn.cid, 'conn_pid': 'parent', 'kind': kind,
                                      'sql': ev.get('sql')})
            ev['foreign_pid'] = True
        if conn.closed and kind != 'close':    # closed by Pony (a lost connection is not 'closed')
            c.closed_use.append({'g': g, 'conn': conn.cid, 'kind': kind, 'sql': ev.get('sql')})
    if c.snapshot is not None:
        c.snapshot(g, ev)
    if c.before_call is not None:
        c.before_call(ev)
    fk = None
    if c.phase == 'main':
        fk = c.faults.pop((thread, k), None)
        if fk is None:
            fk = c.gfaults.pop(g, None)
    if fk is not None and c.fault_filter is not None:
        fk = c.fault_filter(ev, fk)
    if fk is None and conn is not None and conn.lost and kind != 'close':
        # every further use of a lost connection fails the same way (not counted as an injected fault)
        ev['lost_conn'] = True
        exc = make_fault_exc('connlost')
        _after(ev, exc)
        raise exc
    if fk is not None:
        ev['fault'] = fk
        c.fired.append([g, thread, k, kind, fk])
        _apply_fault_side_effect(conn, kind, fk, cursor)
        exc = make_fault_exc(fk)
        _after(ev, exc)
        raise exc
    s = simsched.current_scheduler()
    if s is not None and s.active:
        s.yield_point('db', kind)
    return ev


def _apply_fault_side_effect(conn, kind, fk, cursor=None):
    """What really happens to the connection when the fault is delivered (see DESIGN 2.2)."""
    if conn is None:
        return
    real = conn._real
    if cursor is not None and kind.startswith('fetch'):
        # a failing sqlite3_step resets the statement (and drops its read lock): finish the
        # real statement so that the injected failure leaves the same state behind
        try:
            cursor.fetchall()
        except Exception:
            pass
    if kind == 'close':
        # close that reports an error: the handle is gone anyway
        conn._do_close()
        return
    if fk == 'connlost':
        # the server side is gone; the client (Pony) does not know and still has to close its handle
        conn.__dict__['lost'] = True
        try:
            real.close()
        except Exception:
            pass
        return
    if fk in ('ioerr_rb',) or (kind == 'commit' and fk in ('ioerr', 'full')):
        # SQLite rolls the transaction back automatically on these errors
        try:
            real.rollback()
        except Exception:
            pass


def _after(ev, exc=None):
    c = ctx
    if exc is not None:
        ev['exc'] = type(exc).__name__ + ':' + str(exc)[:80]
    conn = _conn_of.pop(ev['g'], None) if ev['c'] >= 0 else None
    if conn is None and 0 <= ev['c'] < len(c.conns):
        conn = c.conns[ev['c']]
    if conn is not None:
        # transaction state of the real connection after the call (models follow this, not Pony's flags)
        if conn.closed or conn.lost:
            ev['tx_after'] = False
        else:
            try:
                ev['tx_after'] = bool(conn._real.in_transaction)
            except Exception:
                pass
    s = simsched.current_scheduler()
    if s is not None and s.active:
        s.db_call_done()
    if c.after_call is not None:
        c.after_call(ev)


def _is_busy(e):
    return isinstance(e, _sqlite3.OperationalError) and 'locked' in str(e)


def _call_real(ev, fn, *args, **kwargs):
    """Execute the real call with the simulated busy-wait."""
    c = ctx
    while True:
        try:
            r = fn(*args, **kwargs)
        except BaseException as e:
            if _is_busy(e):
                c.busy_seen += 1
                s = simsched.current_scheduler()
                if s is not None and s.active and s.current_sim_thread() is not None:
                    if s.busy_wait(c.busy_retries):
                        c.sim_time += 0.1
                        ev['busy_retry'] = ev.get('busy_retry', 0) + 1
                        continue
                    c.busy_expired += 1
                    c.sim_time += 5.0
            _after(ev, e)
            raise
        _after(ev)
        return r


class ProxyCursor(object):
    def __init__(self, conn, real):
        object.__setattr__(self, '_conn', conn)
        object.__setattr__(self, '_real', real)

    def execute(self, sql, *args):
        ev = _intercept(self._conn, 'execute', sql, args[0] if args else None)
        _call_real(ev, self._real.execute, sql, *args)
        if sql[:6] in ('UPDATE', 'DELETE'):
            ev['rc'] = self._real.rowcount
        return self

    def executemany(self, sql, seq):
        seq = list(seq)
        ev = _intercept(self._conn, 'executemany', sql, seq, many=True)
        _call_real(ev, self._real.executemany, sql, seq)
        return self

    def fetchone(self):
        ev = _intercept(self._conn, 'fetchone', cursor=self._real)
        return _call_real(ev, self._real.fetchone)

    def fetchmany(self, *a):
        ev = _intercept(self._conn, 'fetchmany', cursor=self._real)
        return _call_real(ev, self._real.fetchmany, *a)

    def fetchall(self):
        ev = _intercept(self._conn, 'fetchall', cursor=self._real)
        return _call_real(ev, self._real.fetchall)

    def __iter__(self):
        return iter(self.fetchall())

    def close(self):
        return self._real.close()

    def __getattr__(self, name):
        return getattr(self._real, name)

    def __setattr__(self, name, value):
        setattr(self._real, name, value)


class ProxyConnection(object):
    def __init__(self, real, cid, thread):
        d = self.__dict__
        d['_real'] = real
        d['cid'] = cid
        d['pid'] = os.getpid()
        d['thread'] = thread
        d['closed'] = False
        d['lost'] = False
        d['close_calls'] = 0

    def _do_close(self):
        d = self.__dict__
        if not d['closed']:
            d['closed'] = True
            try:
                d['_real'].close()
            except Exception:
                pass

    def cursor(self, *a):
        ev = _intercept(self, 'cursor')
        real = _call_real(ev, self._real.cursor, *a)
        return ProxyCursor(self, real)

    def execute(self, sql, *args):
        ev = _intercept(self, 'con.execute', sql, args[0] if args else None)
        real = _call_real(ev, self._real.execute, sql, *args)
        return ProxyCursor(self, real)

    def commit(self):
        ev = _intercept(self, 'commit')
        try:
            ev['in_tx'] = bool(self._real.in_transaction)
        except Exception:
            pass
        return _call_real(ev, self._real.commit)

    def rollback(self):
        ev = _intercept(self, 'rollback')
        try:
            ev['in_tx'] = bool(self._real.in_transaction)
        except Exception:
            pass
        return _call_real(ev, self._real.rollback)

    def close(self):
        self.__dict__['close_calls'] += 1
        ev = _intercept(self, 'close')
        if os.getpid() != self.pid:
            # closing an inherited handle in a forked child: keep the parent's file intact,
            # just record it (it was already reported as foreign-pid use)
            self.__dict__['closed'] = True
            _after(ev)
            return None
        self.__dict__['closed'] = True
        return _call_real(ev, self._real.close)

    def __getattr__(self, name):
        return getattr(self._real, name)

    def __setattr__(self, name, value):
        setattr(self._real, name, value)


def proxy_connect(*args, **kwargs):
    ev = _intercept(None, 'connect')
    real = _call_real(ev, _sqlite3.connect, *args, **kwargs)
    conn = ProxyConnection(real, len(ctx.conns), ctx.thread_name())
    ev['c'] = conn.cid
    ctx.conns.append(conn)
    return conn


def make_proxy_module():
    m = types.SimpleNamespace()
    for name in dir(_sqlite3):
        if not name.startswith('__'):
            setattr(m, name, getattr(_sqlite3, name))
    m.__name__ = 'sqlite3'
    m.connect = proxy_connect
    return m


_installed = False


def install(sim_locks=True):
    """Install the seams into the already imported pony modules (idempotent)."""
    global _installed
    from .env import import_pony
    import_pony()
    import pony.orm.dbproviders.sqlite as psq
    import pony.orm.core as core
    if not _installed:
        proxy = make_proxy_module()
        psq.sqlite = proxy
        psq.SQLiteProvider.dbapi_module = proxy
        _installed = True
    if sim_locks:
        psq.Lock = simsched.SimLock
        core.RLock = simsched.SimRLock
    return psq


def raw_connect(path, **kw):
    """An independent, unproxied, unscheduled connection (oracle rule R7)."""
    kw.setdefault('timeout', 0)
    con = _sqlite3.connect(path, isolation_level=None, **kw)
    return con
