"""Worker process: imports the tree under test once, then executes simulated runs
in-process, one after another, resetting all process-wide Pony state before each
run (see procstate.py).

Why not fork-per-run (DESIGN 2.6 as first written): measured on this sandbox a
fork of the ~60 MB interpreter costs 8 ms alone and 350-900 ms when 8-16
workers fork concurrently (copy-on-write faults are serialised by the VM),
against 1.6 ms for the run itself.  Isolation is therefore achieved by explicit
state reset plus a determinism self-test that compares the digest of a case run
late in a batch with the digest of the same case in a brand-new process.

Protocol: one JSON document per line on stdin (a case) -> one JSON line on the
saved stdout (the result).  A case with {"isolate": true} is run in a forked
child (used by the FORK engine and by runs that may leave threads parked).
"""
import faulthandler
import gc
import json
import os
import shutil
import signal
import sys
import traceback


def _clean_dir(d):
    try:
        for name in os.listdir(d):
            p = os.path.join(d, name)
            if os.path.isdir(p) and not os.path.islink(p):
                shutil.rmtree(p, ignore_errors=True)
            else:
                try:
                    os.unlink(p)
                except OSError:
                    pass
    except OSError:
        pass


def execute(case, scratch):
    from . import engines, procstate
    import random
    _clean_dir(scratch)
    procstate.reset(case.get('seed', 0))
    random.seed(case.get('seed', 0))
    gc.collect()
    gc.disable()
    try:
        res = engines.run_case(case, scratch)
    except BaseException:
        res = {'harness_error': traceback.format_exc()[-6000:]}
    finally:
        gc.enable()
    try:
        procstate.cleanup()
    except BaseException:
        res.setdefault('cleanup_error', traceback.format_exc()[-2000:])
        res['dirty'] = True
    return res


def run_isolated(case, scratch):
    r, w = os.pipe()
    pid = os.fork()
    if pid == 0:
        try:
            os.close(r)
            res = execute(case, scratch)
            data = json.dumps(res, sort_keys=True, default=repr).encode('utf-8')
            while data:
                n = os.write(w, data)
                data = data[n:]
        except BaseException:
            pass
        finally:
            os._exit(0)
    os.close(w)
    chunks = []
    while True:
        c = os.read(r, 1 << 16)
        if not c:
            break
        chunks.append(c)
    os.close(r)
    _, status = os.waitpid(pid, 0)
    if not chunks:
        return {'harness_error': 'isolated child died without a result (status %d)' % status}
    return json.loads(b''.join(chunks).decode('utf-8'))


def main():
    real_out = os.fdopen(os.dup(1), 'w', buffering=1)
    os.dup2(2, 1)   # anything printed by pony / engines goes to the stderr log
    scratch = os.environ['PONYSIM_WORKER_SCRATCH']
    timeout = int(os.environ.get('PONYSIM_RUN_TIMEOUT', '30'))
    os.makedirs(scratch, exist_ok=True)

    from . import env, simdb, engines, procstate
    env.import_pony()
    simdb.install()
    engines.preload()
    procstate.install()
    for _ in range(2):
        execute({'engine': 'noop', 'seed': 0}, scratch)
    gc.collect()
    gc.freeze()

    real_out.write(json.dumps({'hello': os.getpid()}) + '\n')
    real_out.flush()
    for line in sys.stdin:
        line = line.strip()
        if not line:
            continue
        case = json.loads(line)
        if case.get('quit'):
            break
        t = int(case.get('timeout', timeout))
        faulthandler.dump_traceback_later(t, exit=True, file=sys.stderr)
        if case.get('isolate'):
            res = run_isolated(case, scratch)
        else:
            res = execute(case, scratch)
        faulthandler.cancel_dump_traceback_later()
        real_out.write(json.dumps(res, sort_keys=True, default=repr) + '\n')
        real_out.flush()
        if res.get('dirty'):
            break
    shutil.rmtree(scratch, ignore_errors=True)
    os._exit(0)


if __name__ == '__main__':
    main()
