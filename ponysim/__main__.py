"""Command line: check | replay | selftest-env | determinism."""
import argparse
import importlib
import json
import os
import sys


def _reexec_hashseed():
    # the dispatcher itself is deterministic too: fixed string hashing
    if os.environ.get('PYTHONHASHSEED') != '0':
        e = dict(os.environ)
        e['PYTHONHASHSEED'] = '0'
        os.execve(sys.executable, [sys.executable, '-m', 'ponysim'] + sys.argv[1:], e)


def cmd_check(args):
    from . import env, harness
    from .pool import sweep_stale
    env.import_pony()
    sweep_stale()
    tier = args.tier or harness.tier_from_env()
    seed = args.seed if args.seed is not None else harness.seed_from_env()
    mod = importlib.import_module('ponysim.checks.' + args.property.lower())
    rc = mod.main(tier, seed)
    sys.stdout.flush()
    return rc


def cmd_replay(args):
    from . import env, harness
    env.import_pony()
    with open(args.path) as f:
        doc = json.load(f)
    case = doc['case']
    key = doc['violation']['key']
    prop = doc['property']
    ok, res = harness.confirm_fresh(case, key, prop)
    if 'harness_error' in res:
        print('HARNESS-ERROR: %s' % res['harness_error'][-2000:])
        return 2
    if ok:
        for v in res.get('violations', ()):
            if v['key'] == key:
                print('VIOLATION property=%s replay=%s' % (prop, os.path.abspath(args.path)))
                print('  key: %s' % key)
                print('  detail: %s' % v.get('detail', '')[:1000])
        return 1
    print('replay of %s did not reproduce %s on this tree' % (args.path, key))
    if args.verbose:
        print(json.dumps(res, indent=1, sort_keys=True)[:6000])
    return 0


def cmd_selftest_env(args):
    import sqlite3
    from . import env
    from .pool import Pool, sweep_stale
    pony = env.import_pony()
    print('python', sys.version.split()[0], 'sqlite', sqlite3.sqlite_version, 'pony', pony.__version__,
          'from', os.path.dirname(pony.__file__))
    print('scratch', env.scratch_root(), 'setarch', env.setarch_prefix())
    sweep_stale()
    with Pool(workers=2) as p:
        res = p.map([{'engine': 'noop', 'seed': 1}, {'engine': 'noop', 'seed': 2}])
    for r in res:
        if 'harness_error' in r:
            print('HARNESS-ERROR', r['harness_error'])
            return 2
    print('workers ok')
    return 0


def main():
    _reexec_hashseed()
    ap = argparse.ArgumentParser(prog='ponysim')
    sub = ap.add_subparsers(dest='cmd', required=True)
    c = sub.add_parser('check')
    c.add_argument('--property', required=True)
    c.add_argument('--tier', choices=['quick', 'thorough'])
    c.add_argument('--seed', type=int)
    c.set_defaults(fn=cmd_check)
    r = sub.add_parser('replay')
    r.add_argument('path')
    r.add_argument('-v', '--verbose', action='store_true')
    r.set_defaults(fn=cmd_replay)
    s = sub.add_parser('selftest-env')
    s.set_defaults(fn=cmd_selftest_env)
    d = sub.add_parser('determinism')
    d.add_argument('--n', type=int, default=64)
    d.add_argument('--seed', type=int)
    d.set_defaults(fn=lambda a: importlib.import_module('ponysim.selftest').determinism(a))
    m = sub.add_parser('mutants')
    m.add_argument('names', nargs='*')
    m.set_defaults(fn=lambda a: importlib.import_module('ponysim.selftest').mutants(a))
    args = ap.parse_args()
    rc = args.fn(args)
    sys.stdout.flush()
    sys.exit(rc or 0)


if __name__ == '__main__':
    main()
