"""C15 - deletion honours cascade rules and leaves no dangling references."""
from . import seqcommon

RULE = ('the C09 histories with a deletion-heavy mix over schema variants that flip cascade_delete and required-ness '
        '(passport cascade, group cascade, optional passport owner, optional / non-cascading car owner); an accepted '
        'delete or unlink is applied to the reference model with the documented cascade rules (a rule that refuses '
        'what Pony accepted is a violation), dumps are compared with the model and PRAGMA foreign_key_check must be '
        'empty after every commit. Non-trivial and distinct as for C09.')


def main(tier, seed):
    return seqcommon.main_for('C15', 'exploration', RULE, ['delete', 'delete', 'rels', 'order', 'partial'], tier, seed)
