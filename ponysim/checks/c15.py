"""C15 - deletion honours cascade rules and leaves no dangling references."""
from . import seqcommon

RULE = ('the C09 histories with a deletion-heavy mix over schema variants that flip cascade_delete and required-ness '
        '(passport cascade, group cascade, optional passport owner, optional / non-cascading car owner); an accepted '
        'delete or unlink is applied to the reference model with the documented cascade rules (a rule that refuses '
        'what Pony accepted is a violation), dumps are compared with the model and PRAGMA foreign_key_check must be '
        'empty after every commit. Non-trivial and distinct as for C09.')


def ddl_then_bulk(seed, i, tier):
    """every 20th case: rows with dependents, then a ddl session that commits in the middle and goes on, then a
    session that deletes with one DELETE statement - the foreign keys have to be in force again by then (on an
    in-memory database Pony keeps the connection the ddl session used)"""
    if i % 20 != 7:
        return None
    from ..prng import Rng, derive
    r = Rng(derive(seed, 'c15ddl', i), 'prog')
    rnd = lambda: [r.below(1000), r.below(1000), r.below(1000)]
    s0 = [['new'] + rnd() for _ in range(5)] + [[r.choice(['create_in', 'new', 'add']),] + rnd() for _ in range(6)]
    s1 = [[r.choice(['new', 'set', 'commit', 'commit', 'flush', 'r_select'])] + rnd() for _ in range(r.randint(2, 5))]
    s2 = [[r.choice(['r_attr', 'r_pk', 'set'])] + rnd() for _ in range(r.randint(0, 2))] + [['bulk_del'] + rnd()]
    variant = r.choice(['base', 'base', 'group_cascade', 'car_optional', 'passport_cascade'])
    return {'engine': 'seq', 'seed': derive(seed, 'c15ddl', i), 'variant': variant,
            'knobs': {'fetch': r.below(3), 'dbkind': r.choice(['shared', 'shared', 'file'])},
            'sessions': [{'opts': {}, 'ops': s0, 'end': 'exit'}, {'opts': {'ddl': True}, 'ops': s1, 'end': 'exit'},
                         {'opts': {}, 'ops': s2, 'end': 'exit'}],
            'flush_policy': 'never', 'go_on_after_c13': True}


def main(tier, seed):
    return seqcommon.main_for('C15', 'exploration', RULE, ['delete', 'delete', 'rels', 'order', 'partial'], tier, seed,
                              extra_gens=[ddl_then_bulk])
