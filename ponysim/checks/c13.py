"""C13 - a modification that raises leaves the session exactly as it was."""
import time

from .. import engines, harness
from ..pool import Pool
from . import seqcommon

RULE = ('(a) natural failures: the C09 histories with a failure-biased mix (re-use of live key values, set() where a '
        'later attribute conflicts, one-to-one displacement of required partners, deletes refused after other '
        'collections were processed, None into required attributes, primary key changes); (b) injected failures: for '
        'every modification of a base history that issues DB-API calls of its own (loads of one-to-one partners, '
        'collection loads before add/remove/assign, cascading deletes) the history is re-run once per (internal call '
        'index, fault kind in {ioerr, busy}). Oracle: white-box snapshot of the whole session (object status, write '
        'bits, save queue, attribute values, collection contents with pending added/removed, key indexes) before and '
        'after the failing call, compared modulo loading. Non-trivial = at least one modification was refused or hit '
        'by a fault; distinct by (history, fault position).')

KINDS = ('ioerr', 'busy')


def main(tier, seed):
    col = harness.Collector('C13', 'fault_enumeration', tier, seed, RULE)
    deadline = time.time() + harness.budget_s(tier)
    fault_runs = [0]
    bases = [0]
    enumerated_fully = [0]

    def cases():
        i = 0
        while True:
            c = seqcommon.gen_case(seed, i, tier, focus=('rels', 'fail', 'mix', 'fail')[i % 4], tag='c13')
            c['want_op_calls'] = True
            c['_base'] = True
            if i % 3 == 0:
                # creations that link collection members first and are refused by a later one-to-one
                # attribute, with members reached as unloaded references
                c['variant'] = 'group_owner'
                c['knobs']['fetch'] = 2
            elif i % 4 == 1:
                # program-chosen primary keys next to a unique key (Car.id / Car.plate): constructors refused for
                # the primary key after the other keys were claimed
                c['variant'] = 'car_explicit_pk'
            yield c
            i += 1

    with Pool() as pool:
        pending = []
        gen = harness.timed_cases(cases(), deadline)

        def stream():
            for c in gen:
                yield c
                while pending:
                    yield pending.pop()

        def batches():
            for cr in pool.imap_unordered(stream()):
                yield cr
            # fault variants of the last base histories, whose results arrived after the stream had ended
            while pending and time.time() < deadline + 30:
                rest = pending[:]
                del pending[:]
                for cr in pool.imap_unordered(iter(rest)):
                    yield cr

        for case, res in batches():
            # non-trivial for this property = something was refused / failed
            if 'harness_error' not in res:
                pr = res.get('probes') or {}
                res['nontrivial'] = bool(pr.get('modification_refused'))
            col.add(case, res)
            if case.get('_base') and 'harness_error' not in res:
                bases[0] += 1
                n = 0
                for si, oi, ncalls in (res.get('op_calls') or []):
                    for k in range(min(ncalls, 12)):
                        for kind in KINDS:
                            c2 = dict((kk, v) for kk, v in case.items() if not kk.startswith('_'))
                            c2['fault_op'] = [si, oi, k, kind]
                            c2.pop('want_op_calls', None)
                            pending.append(c2)
                            n += 1
                fault_runs[0] += n
                if n:
                    enumerated_fully[0] += 1
        col.extra['fault_enumeration'] = {'base_histories': bases[0], 'fault_variants_run': fault_runs[0],
                                          'histories_with_internal_calls': enumerated_fully[0],
                                          'kinds': list(KINDS), 'per_operation_call_cap': 12}
        rc = harness.finish(col, pool, lambda case: engines.get(case['engine']), components=seqcommon.COMPONENTS,
                            assumptions=['"observable part of the session" is read white-box from the session cache; '
                                         'data that the failed call merely loaded may appear',
                                         'cache.modified and modified_collections flags are not compared (no observable effect)',
                                         'SQLite only'])
    return rc
