"""C33 - lifecycle hooks run once per saved change and their edits are saved."""
import time

from .. import engines, harness
from ..pool import Pool
from ..prng import Rng, derive
from . import seqcommon

RULE = ('the C09 histories with lifecycle hooks on every entity whose behaviour is a seeded knob (log only; read own '
        'attributes; modify another own attribute in before_insert/before_update; create an object of another entity or add a many-to-many link in '
        'before_insert), through every flush entry point (auto-flush before queries and lookups, flush(), commit(), '
        'session exit, obj.flush()); hook events are stamped with the DB-API call counter and merged with the '
        'INSERT/UPDATE/DELETE statements the proxy recorded; oracle per flush window and (entity, kind): every statement '
        'has a before_* hook that ran earlier, no hook runs twice for one object, a flush that returns has exactly one '
        'after_* per successful statement and none before it, a failing flush never runs after_* for a failed '
        'statement; edits and creations made in before_* hooks are part of the model, so dumps and reads must show '
        'them after the same flush. Non-trivial and distinct as for C09 (hook mode is part of the identity).')

MODES = ('log', 'read', 'modify', 'create', 'link', 'after_edit')


def main(tier, seed):
    col = harness.Collector('C33', 'exploration', tier, seed, RULE)
    deadline = time.time() + harness.budget_s(tier)
    focus = ['default', 'order', 'rels', 'delete']

    def cases():
        i = 0
        while True:
            c = seqcommon.gen_case(seed, i, tier, focus=focus[i % len(focus)], tag='c33')
            r = Rng(derive(seed, 'c33k', i))
            c['knobs']['hook_mode'] = MODES[i % len(MODES)]
            # sprinkle obj.flush() calls
            for s in c['sessions']:
                for j in range(len(s['ops'])):
                    if r.chance(0.08):
                        s['ops'][j] = ['oflush', r.below(1000), 0, 0]
            c['retag_as'] = 'C33'
            c['retag_from'] = ['C09', 'C10']
            c['retag_label'] = 'with-hooks'
            yield c
            i += 1

    with Pool() as pool:
        for case, res in pool.imap_unordered(harness.timed_cases(cases(), deadline)):
            col.add(case, res)
        rc = harness.finish(col, pool, lambda case: engines.get(case['engine']), components=seqcommon.COMPONENTS,
                            assumptions=['statements are matched to hooks per flush window and (entity, kind) by count and order, '
                                         'not row by row', 'hooks do not delete objects and do not modify key attributes',
                                         'SQLite only'])
    return rc
