"""C22 - concurrent threads do not interfere through shared process state."""
import time

from .. import engines, harness
from ..pool import Pool
from ..prng import Rng, derive

RULE = ('2-3 scheduled threads, each 1-2 sessions of 2-6 queries drawn from a menu built to share code objects and '
        'source strings while differing in baked-in parameter values (getattr name, slice bounds, index), plus raw SQL, '
        'keyword filters, collection/lazy loads, merge_local_stats and cross-thread object use; pre-emption at DB '
        'calls, lock operations and Python line events inside the white-listed cache functions; oracle: per-thread '
        'observations equal the same program run alone with cold caches. Non-trivial = at least one context switch '
        'beyond thread start-up; distinct by (programs, schedule taken).')

COMPONENTS = {
    'real': ['pony.orm.core Query/translator/SQL caches, adapt_sql, string2ast', 'pony.orm.asttranslation.create_extractors',
             'pony.orm.decompiling', 'pony.utils codeobject/lambda caches', 'SQLite provider + sqlite3'],
    'stub': ['seeded scheduler with sys.monitoring LINE pre-emption', 'DB-API proxy', 'SimLock/SimRLock'],
}

BAKED = ('getattr', 'getattr_proj', 'slice', 'index')
OTHER = ('param', 'param_typed', 'lambda', 'str', 'count', 'raw', 'raw2', 'kw', 'filter_chain', 'items',
         'lazy_nav', 'stats')


def gen_case(seed, i, tier):
    rs = derive(seed, 'c22', i)
    r = Rng(rs, 'prog')
    n_threads = 2 if r.chance(0.75) else 3
    # swarm: each run concentrates on a subset of the menu so that threads collide on the same code objects
    focus = r.sample(BAKED, r.randint(1, 2)) + r.sample(OTHER, r.randint(0, 3))
    threads = {}
    for t in range(n_threads):
        prog = []
        for s in range(r.randint(1, 2)):
            ops = []
            for _ in range(r.randint(2, 6)):
                kind = r.choice(focus)
                ops.append([kind, r.below(12), r.below(12)])
            sess = {'ops': ops}
            if r.chance(0.25):
                sess['share'] = r.below(4)
                if r.chance(0.7):
                    pass
            if r.chance(0.2):
                # (how 4 / 5: the collection of the foreign object is loaded; as the session's very first action in
                # part of the runs - a session that has not touched the database yet has no cache of its own)
                first = 'share' not in sess and r.chance(0.4)
                ops.insert(0 if first else r.below(len(ops) + 1), ['cross', r.below(2), r.below(6)])
            prog.append(sess)
        threads['T%d' % t] = prog
    knobs = {}
    if r.chance(0.3):
        knobs['prewarm'] = [[r.choice(focus), r.below(12), r.below(12)] for _ in range(3)]
    return {'engine': 'conc', 'mode': 'c22', 'seed': rs, 'threads': threads, 'knobs': knobs,
            'p_switch': r.choice([0.02, 0.05, 0.1, 0.2]), 'line_level': 'thorough' if tier == 'thorough' else 'quick'}


def replayable(case, res):
    """turn a seeded-schedule case into an explicit-schedule case (shrinkable)"""
    c = dict(case)
    c['schedule'] = res.get('schedule', [])
    c.pop('p_switch', None)
    return c


def main(tier, seed):
    col = harness.Collector('C22', 'exploration', tier, seed, RULE)
    deadline = time.time() + harness.budget_s(tier)

    def cases():
        i = 0
        while True:
            yield gen_case(seed, i, tier)
            i += 1

    with Pool() as pool:
        for case, res in pool.imap_unordered(harness.timed_cases(cases(), deadline)):
            if res.get('violations'):
                case = replayable(case, res)
            col.add(case, res)
        rc = harness.finish(col, pool, lambda case: engines.get('conc'), components=COMPONENTS,
                            assumptions=['pre-emption happens only between Python lines of the white-listed functions, at '
                                         'DB-API calls and at lock operations; the GIL makes single bytecodes atomic',
                                         'SQLite only'])
    return rc
