"""Per-property check drivers.  Each module exposes main(tier, seed) -> exit code."""
