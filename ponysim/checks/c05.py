"""C05 - query, SQL and result caches are transparent."""
import time

from .. import engines, harness
from ..pool import Pool
from ..prng import Rng, derive

RULE = ('histories of 1-3 sessions x 4-14 operations: queries built to share code objects and source strings while '
        'varying parameter values and types (getattr names, string slice / index bounds, tuples of different lengths, '
        'int / float / str / None / bool parameters), hybrid methods / properties / functions whose globals and closure '
        'cells change value and type between executions, lambdas, string-source queries, filter / where / keyword chains, '
        'queries with a baked-in parameter value reshaped by order_by / order_by(None) / filter / where / distinct / without_distinct, '
        'aggregates, first / exists / page / get, prefetch, raw_sql fragments, raw db.select / exists / execute with '
        '$name, $(expr), $$ and %, select_by_sql / get_by_sql, adapt_sql under all five parameter styles - interleaved '
        'with ORM modifications, flush, commit, rollback and session boundaries; each history runs three times on '
        'identical fresh databases: caches never dropped, every process / database / entity / attribute / session '
        'cache dropped before every operation (always cold: the reference), and a seeded subset dropped at seeded '
        'points; the observation sequences (typed values or exception class) must be identical. Non-trivial = at least '
        'four operations; distinct by history.')

COMPONENTS = {
    'real': ['pony.orm.core Query translation / SQL / result caches, adapt_sql, string2ast, raw SQL paths',
             'pony.orm.asttranslation, decompiling, sqltranslation, sqlbuilding', 'SQLite provider + sqlite3'],
    'stub': ['cache-loss injector (clears Pony\'s cache dictionaries from outside)', 'DB-API proxy'],
}

W = [('q_eq', 5), ('q_cmp', 4), ('q_in', 3), ('q_slice', 4), ('q_index', 3), ('q_getattr', 3), ('q_shape', 6), ('q_lambda', 3), ('q_str', 3),
     ('q_chain', 3), ('q_aggr', 3), ('q_limit', 3), ('q_get', 2), ('q_kw', 2), ('q_items', 2), ('q_join', 2), ('q_m2m', 2),
     ('q_prefetch', 2), ('q_rawfrag', 2), ('q_hybrid', 5), ('raw', 4), ('by_sql', 2), ('adapt', 4),
     ('m_set', 3), ('m_new', 2), ('m_del', 1), ('m_tag', 2), ('m_rawwrite', 2), ('m_bulkdel', 2), ('q_oneoff', 4), ('flush', 1), ('commit', 1), ('rollback', 1)]


def gen_case(seed, i, tier):
    rs = derive(seed, 'c05', i)
    r = Rng(rs, 'prog')
    # swarm: concentrate on a subset of the menu so that the same code objects are re-used with different parameters
    kinds = [k for k, _ in W]
    focus = set(r.sample(kinds, r.randint(3, 8)))
    pairs = [(k, w * (4 if k in focus else 1)) for k, w in W]
    sessions = []
    for s in range(r.randint(1, 3)):
        ops = [[r.weighted(pairs), r.below(1000), r.below(1000), r.below(1000)] for _ in range(r.randint(4, 14))]
        sessions.append(ops)
    return {'engine': 'qcache', 'seed': rs, 'sessions': sessions}


def main(tier, seed):
    col = harness.Collector('C05', 'exploration', tier, seed, RULE)
    deadline = time.time() + harness.budget_s(tier)

    def cases():
        i = 0
        while True:
            yield gen_case(seed, i, tier)
            i += 1

    with Pool() as pool:
        for case, res in pool.imap_unordered(harness.timed_cases(cases(), deadline)):
            col.add(case, res)
        rc = harness.finish(col, pool, lambda case: engines.get('qcache'), components=COMPONENTS,
                            assumptions=['cache loss is always legal (a cache may be cold), so the always-cold run is the reference',
                                         'raw writes go through db.execute() of the session itself (a column of rows whose objects the '
                                         'histories never hold in memory at that moment is not guaranteed: stale objects are C10\'s subject)',
                                         'SQLite only'])
    return rc
