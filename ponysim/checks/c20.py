"""C20 - optimistic concurrency control prevents lost updates."""
import time

from .. import engines, harness
from ..pool import Pool
from ..prng import Rng, derive

RULE = ('2-3 scheduled threads x 1-2 optimistic sessions of 2-8 steps (load, read, write unique value, '
        'read-one-attribute-write-another, increment, flush, query refresh, get_for_update, mid-session commit) over 3 '
        'shared rows with checked (int, str), type-excluded (float), option-excluded and volatile attributes; '
        'pre-emption at every DB-API call and between steps; oracle over the recorded history: a committed update of '
        'an object implies every checked attribute read from it (not overwritten, object not locked) equalled the '
        'committed value at commit; failed sessions change nothing (final dump = replay of committed writes); a '
        'session with no concurrent commit never fails with an isolation error. Non-trivial = another session '
        'committed between a session\'s first read and its end; distinct by (programs, schedule, faults).')

COMPONENTS = {
    'real': ['pony.orm.core optimistic checks (_rbits_, _construct_optimistic_criteria_, _save_updated_, _db_set_)',
             'SessionCache / db_session', 'SQLite provider + sqlite3 on a tmpfs file'],
    'stub': ['seeded scheduler', 'DB-API proxy', 'SimLock'],
}

STEP_W = [('load', 1), ('read', 4), ('read_dict', 2), ('write', 3), ('rmw', 3), ('incr', 2), ('flush', 1), ('query', 1),
          ('lock', 1), ('commit', 1)]


def gen_case(seed, i, tier, with_faults):
    rs = derive(seed, 'c20', i)
    r = Rng(rs, 'prog')
    n_threads = 2 if r.chance(0.7) else 3
    hot = r.below(3)          # most steps hit one object so that sessions really overlap
    threads = {}
    for t in range(n_threads):
        prog = []
        for s in range(r.randint(1, 2)):
            steps = []
            for _ in range(r.randint(2, 8)):
                op = r.weighted(STEP_W)
                o = hot if r.chance(0.75) else r.below(3)
                steps.append([op, o, r.below(10)])
            if r.chance(0.15):
                # read without lock, let something else open the transaction (a lock on another row, a flush of
                # another change), then lock the row that was read and change it
                k = r.below(10)
                other = (hot + 1 + r.below(2)) % 3
                steps = [['read', hot, k], [r.choice(['lock', 'lock', 'incr']), other, 2], ['flush', 0, 0],
                         ['lock', hot, 0], [r.choice(['rmw', 'incr', 'write']), hot, k]]
                if r.chance(0.5):
                    steps.insert(1, [r.choice(['read', 'read_dict', 'load']), other, r.below(10)])
            prog.append({'kind': 'opt', 'steps': steps})
        threads['T%d' % t] = prog
    faults = []
    if with_faults:
        for _ in range(r.randint(1, 2)):
            faults.append(['T%d' % r.below(n_threads), r.below(30), r.below(12)])
    knobs = {'busy_retries': r.choice([0, 3, 50])}
    if r.chance(0.2):
        knobs['cache_size'] = 1
    return {'engine': 'conc', 'mode': 'c20', 'seed': rs, 'threads': threads, 'faults': faults, 'knobs': knobs,
            'p_switch': r.choice([0.05, 0.15, 0.3])}


def replayable(case, res):
    c = dict(case)
    c['schedule'] = res.get('schedule', [])
    c.pop('p_switch', None)
    return c


def main(tier, seed, prop='C20', mode='c20', rule=RULE, components=COMPONENTS, gen=None):
    col = harness.Collector(prop, 'exploration', tier, seed, rule)
    deadline = time.time() + harness.budget_s(tier)
    g = gen or gen_case

    def cases():
        i = 0
        while True:
            # fault-free and fault-injecting configurations are separate runs
            yield g(seed, i, tier, with_faults=(i % 4 == 3))
            i += 1

    with Pool() as pool:
        for case, res in pool.imap_unordered(harness.timed_cases(cases(), deadline)):
            if res.get('violations'):
                case = replayable(case, res)
            col.add(case, res)
        rc = harness.finish(col, pool, lambda case: engines.get('conc'), components=components,
                            assumptions=['SQLite serialises write transactions, so the committed value at the moment of '
                                         'the UPDATE equals the committed value at the moment of the COMMIT',
                                         'PostgreSQL cannot run in this sandbox', 'pre-emption at DB-API call and step boundaries'])
    return rc
