"""C36 - a forked process never uses its parent's database connection."""
import itertools
import time

from .. import engines, harness
from ..pool import Pool
from ..prng import derive

RULE = ('real os.fork() at every enumerated position relative to the parent\'s sessions (no connection yet; idle with a '
        'pooled connection; inside an open read-only session; inside an open write transaction; after flush, uncommitted; '
        'after db.disconnect(); after a mid-session commit; inside an immediate session) x process order (child first, '
        'parent first, alternating, serialised through pipes) x forking thread (main / non-main) x 1-2 child sessions; plus, for the idle positions, a '
        'child whose first own connect fails, a second Database with its own pooled connection that the child uses too, and a '
        'child that forks again (the grandchild must not use the child\'s connection, the child goes on using its own; '
        'also a child that never connects itself, so that the grandchild inherits the first process\'s connection); '
        'every proxy connection remembers the pid that opened it; oracle: no call on a connection from another pid, '
        'child and parent sessions complete (only cross-process "database is locked" is tolerated, timeout=0), rows '
        'committed by either side are visible afterwards. Every case is non-trivial; the grid is enumerated completely.')

COMPONENTS = {
    'real': ['pony.orm.dbapiprovider.Pool (pid check), SQLitePool, SessionCache / core.local across fork()', 'real os.fork()',
             'sqlite3 on a tmpfs file shared by both processes'],
    'stub': ['DB-API proxy (pid ledger)', 'pipes serialising the two processes'],
}


def grid(seed):
    fork = engines.get('fork')
    i = 0
    for pos, order, thread, n in itertools.product(fork.POSITIONS, fork.ORDERS, (False, True), (1, 2)):
        yield {'engine': 'fork', 'isolate': True, 'position': pos, 'order': order, 'thread': thread,
               'child_sessions': n, 'seed': derive(seed, 'c36', i), 'timeout': 60}
        i += 1
    # the child's first own connection attempt fails, later ones succeed
    for pos, order, thread in itertools.product(('no_connection', 'pooled_idle', 'after_disconnect'), fork.ORDERS, (False, True)):
        yield {'engine': 'fork', 'isolate': True, 'position': pos, 'order': order, 'thread': thread, 'child_sessions': 2,
               'child_fault': True, 'seed': derive(seed, 'c36', i), 'timeout': 60}
        i += 1
    # two databases bound in the process, both with a pooled connection at the fork; the child uses both
    for pos, order, thread in itertools.product(('no_connection', 'pooled_idle', 'after_disconnect'), fork.ORDERS, (False, True)):
        yield {'engine': 'fork', 'isolate': True, 'position': pos, 'order': order, 'thread': thread, 'child_sessions': 2,
               'second_db': True, 'seed': derive(seed, 'c36', i), 'timeout': 60}
        i += 1
    # the child forks again: the grandchild must not use the child's connection, the child goes on using it
    for pos, second, thread in itertools.product(('no_connection', 'pooled_idle', 'after_disconnect'), (False, True), (False, True)):
        yield {'engine': 'fork', 'isolate': True, 'position': pos, 'order': 'child_first', 'thread': thread,
               'child_sessions': 1, 'grandchild': True, 'second_db': second, 'seed': derive(seed, 'c36', i), 'timeout': 60}
        i += 1
    # ... and a child that only supervises: it forks the worker without ever using the database itself, so the
    # connection the worker inherits was opened two generations up
    for pos, second, thread in itertools.product(('pooled_idle', 'after_disconnect', 'no_connection'), (False, True), (False, True)):
        yield {'engine': 'fork', 'isolate': True, 'position': pos, 'order': 'child_first', 'thread': thread,
               'child_sessions': 0, 'grandchild': True, 'second_db': second, 'seed': derive(seed, 'c36', i), 'timeout': 60}
        i += 1
    # the child calls db.disconnect(): before its first session, or between two of its sessions
    for pos, when, second, thread in itertools.product(('pooled_idle', 'after_disconnect', 'no_connection'), ('first', 'after'),
                                                       (False, True), (False, True)):
        yield {'engine': 'fork', 'isolate': True, 'position': pos, 'order': 'child_first', 'thread': thread,
               'child_sessions': 2, 'child_disconnect': when, 'second_db': second, 'seed': derive(seed, 'c36', i),
               'timeout': 60}
        i += 1


def main(tier, seed):
    col = harness.Collector('C36', 'fault_enumeration', tier, seed, RULE)
    cases = list(grid(seed))
    with Pool() as pool:
        for case, res in pool.imap_unordered(iter(cases)):
            col.add(case, res)
        col.exhaustive = True
        col.extra['grid'] = {'positions': len(engines.get('fork').POSITIONS), 'orders': 3, 'cases': len(cases)}
        rc = harness.finish(col, pool, lambda case: engines.get('fork'), components=COMPONENTS,
                            assumptions=['SQLite only: OraPool.connect and the other providers cannot run here',
                                         'the child runs its own sessions from a fresh entry point (it does not return into the '
                                         'parent\'s with-block)'])
    return rc
