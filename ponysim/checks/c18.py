"""C18 - a db_session commits exactly when its body succeeds."""
import itertools
import time

from .. import engines, harness
from ..pool import Pool
from ..prng import derive

RULE = ('enumerated grid: form in {with, decorator, decorator-on-generator, decorator-on-async-def driven by a send/throw '
        'loop, Flask integration, Bottle plugin} x retry in {0,1,2,3} x allowed_exceptions in {(), list, callable, '
        'callable that raises} x retry_exceptions in {default, list, callable} x flags in {none, strict, immediate, '
        'serializable, optimistic=False, ddl} x scripted bodies (finish; raise first / after writes+flush / after an '
        'explicit commit / inside a nested session; nested serializable / ddl inside plain; explicit rollback; injected '
        'commit failure at the outermost commit or at an explicit commit) x exception in {allowed, subclass of allowed, '
        'retryable, other, TransactionError subclass, should_retry, allowed and should_retry at once, KeyboardInterrupt, GeneratorExit} x second attempt '
        'succeeds / fails; generator forms x {iterate, throw into, close, abandon}. Oracle: executable specification of '
        'the documented rule (rows committed, number of body executions, propagated exception, each attempt starts '
        'from the committed state). Every case is non-trivial; distinct by (form, options, script, drive).')

COMPONENTS = {
    'real': ['pony.orm.core.DBSessionContextManager (all forms)', 'pony/flask/__init__.py', 'pony/orm/integration/bottle_plugin.py',
             'SessionCache commit/rollback', 'SQLite provider + sqlite3 on a tmpfs file'],
    'stub': ['flask and bottle modules (not installed): stand-ins with the documented before_request / teardown_request and '
             'HTTPResponse / HTTPError conventions', 'DB-API proxy (commit fault injection)'],
}

EXCS = ['Allowed', 'AllowedSub', 'Retry', 'Other', 'Txn', 'ShouldRetry', 'AllowedShouldRetry', 'KbInt', 'GenExit']
FLAGS = [{}, {'strict': True}, {'immediate': True}, {'serializable': True}, {'optimistic': False}, {'ddl': True}]
OK = [['mark']]


def failing_scripts(e):
    return [
        [['raise', e]],
        [['mark'], ['flush'], ['raise', e]],
        [['mark'], ['commit'], ['mark'], ['raise', e]],
        [['mark'], ['nested', 'plain', [['mark'], ['raise', e]]]],
        [['mark'], ['nested', 'strict', [['mark']]], ['raise', e]],
    ]


OTHER_SCRIPTS = [
    [['mark']],
    [['mark'], ['flush'], ['mark']],
    [['mark'], ['rollback'], ['mark']],
    [['mark'], ['commit'], ['mark'], ['rollback']],
    [['mark'], ['nested', 'plain', [['mark']]], ['mark']],
    [['mark'], ['nested', 'serializable', [['mark']]]],
    [['mark'], ['nested', 'ddl', [['mark']]]],
    [['mark'], ['fault', 'busy']],
    [['mark'], ['fault', 'ioerr']],
    [['mark'], ['fault', 'full'], ['commit'], ['mark']],
    [['mark'], ['commit'], ['mark'], ['fault', 'ioerr']],
]


def grid():
    # decorator and with forms
    for form in ('decorator', 'with'):
        for retry, allowed, rexc, flags in itertools.product(
                (0, 1, 2, 3) if form == 'decorator' else (0, 1),
                ('none', 'list', 'callable', 'callable_raises'),
                ('default', 'list', 'callable'), FLAGS):
            if allowed == 'list' and rexc == 'list':
                pass
            opts = {'retry': retry, 'allowed': allowed, 'retry_exc': rexc, 'flags': flags}
            for s in OTHER_SCRIPTS:
                yield {'engine': 'sess', 'form': form, 'opts': opts, 'script': [s]}
                if form == 'decorator' and retry:
                    yield {'engine': 'sess', 'form': form, 'opts': opts, 'script': [s, [['mark']]]}
            for e in EXCS:
                for s in failing_scripts(e):
                    yield {'engine': 'sess', 'form': form, 'opts': opts, 'script': [s]}
                    if form == 'decorator' and retry:
                        yield {'engine': 'sess', 'form': form, 'opts': opts, 'script': [s, [['mark']]]}
                        yield {'engine': 'sess', 'form': form, 'opts': opts, 'script': [s, s, [['mark'], ['commit'], ['mark']]]}
    # generator / async forms
    gen_scripts = [
        [['mark'], ['commit'], ['yield'], ['mark'], ['commit']],
        [['mark'], ['commit'], ['yield'], ['mark']],
        [['mark'], ['yield'], ['mark']],
        [['mark'], ['flush'], ['yield']],
        [['yield'], ['mark'], ['yield']],
        [['yield'], ['yield'], ['mark']],
        [['mark'], ['commit'], ['yield'], ['nested', 'plain', [['mark']]]],
    ]
    for form in ('generator', 'async'):
        for allowed, flags in itertools.product(('none', 'list', 'callable'), ({}, {'strict': True})):
            opts = {'retry': 0, 'allowed': allowed, 'retry_exc': 'default', 'flags': flags}
            for s in gen_scripts:
                yield {'engine': 'sess', 'form': form, 'opts': opts, 'script': [s], 'drive': 'iterate'}
                for d in ('close@0', 'abandon@0'):
                    yield {'engine': 'sess', 'form': form, 'opts': opts, 'script': [s], 'drive': d}
                for e in ('Allowed', 'Other', 'Txn', 'KbInt'):
                    yield {'engine': 'sess', 'form': form, 'opts': opts, 'script': [s], 'drive': 'throw:%s@0' % e}
            for e in EXCS:
                for s in ([['mark'], ['raise', e]], [['mark'], ['commit'], ['yield'], ['mark'], ['raise', e]],
                          [['yield'], ['raise', e]]):
                    yield {'engine': 'sess', 'form': form, 'opts': opts, 'script': [s], 'drive': 'iterate'}
        for bad in ({'retry': 1}, {'flags': {'ddl': True}}, {'flags': {'serializable': True}}):
            opts = {'retry': bad.get('retry', 0), 'allowed': 'none', 'retry_exc': 'default', 'flags': bad.get('flags', {})}
            yield {'engine': 'sess', 'form': form, 'opts': opts, 'script': [[['mark']]], 'drive': 'iterate'}
    # web integrations
    for s in OTHER_SCRIPTS:
        yield {'engine': 'sess', 'form': 'flask', 'opts': {}, 'script': [s]}
        yield {'engine': 'sess', 'form': 'bottle', 'opts': {'allowed': 'bottle'}, 'script': [s]}
    for e in EXCS + ['HTTPResponse', 'HTTPError']:
        for s in failing_scripts(e):
            if e not in ('HTTPResponse', 'HTTPError'):
                yield {'engine': 'sess', 'form': 'flask', 'opts': {}, 'script': [s]}
            yield {'engine': 'sess', 'form': 'bottle', 'opts': {'allowed': 'bottle'}, 'script': [s]}


def main(tier, seed):
    col = harness.Collector('C18', 'fault_enumeration', tier, seed, RULE)
    deadline = time.time() + harness.budget_s(tier)
    total = [0]
    taken = [0]

    def cases():
        for i, c in enumerate(grid()):
            total[0] += 1
            c['seed'] = derive(seed, 'c18', i)
            if tier == 'quick' and c['form'] in ('decorator', 'with') and derive(seed, 'pick', i) % 4:
                continue        # quick: a seeded quarter of the big decorator/with block, everything else in full
            taken[0] += 1
            yield c
            if tier == 'thorough' or derive(seed, 'links', i) % 5 == 0:
                # the same case with marks that are many-to-many links between existing rows: the body saves no
                # object, only link-table statements (which rely on flush() for their transaction)
                c2 = dict(c)
                c2['marks'] = 'links'
                c2['seed'] = derive(seed, 'c18l', i)
                taken[0] += 1
                yield c2

    with Pool() as pool:
        done = 0
        for case, res in pool.imap_unordered(harness.timed_cases(cases(), deadline)):
            col.add(case, res)
            done += 1
        complete = (done == taken[0]) and tier == 'thorough'
        col.exhaustive = bool(complete)
        col.extra['grid'] = {'grid_size': total[0], 'cases_run': done, 'tier_selection': taken[0]}
        rc = harness.finish(col, pool, lambda case: engines.get(case['engine']), components=COMPONENTS,
                            assumptions=['flask / bottle are stand-ins that follow the documented calling conventions',
                                         'where the documentation does not determine the outcome (exception both allowed and '
                                         'retryable; failing allowed_exceptions callable together with a retryable exception) either '
                                         'outcome is accepted (probe ambiguous_cases)',
                                         'SQLite only'])
    return rc
