"""C32 - objects from a finished session are read-only snapshots."""
import time

from .. import engines, harness
from ..pool import Pool
from ..prng import Rng, derive
from . import seqcommon

RULE = ('the C09 histories (sessions ended by commit, rollback, body exception, failed flush; strict and non-strict; '
        'optimistic / immediate / non-optimistic) where after every session the objects it left behind - inserted, '
        'loaded, updated, deleted, cancelled, never-loaded references, partially loaded collections - receive 4-10 seeded '
        'operations outside any session: attribute and collection reads, to_dict(), assignment, set(), relationship '
        'assignment, collection add / remove / clear / assign, delete(), flush(), load(), and use as a value inside a later '
        'session. Oracle: loaded values read back (equal to the committed value when the session committed), unloaded '
        'ones and strict-session objects do not; every mutation raises a session-is-over error (deleted objects may '
        'report that instead); zero DB-API calls during the operation and an unchanged dump afterwards; a later session '
        'refuses the object with TransactionError. Non-trivial and distinct as for C09 (+ the detached operations).')


def main(tier, seed):
    col = harness.Collector('C32', 'exploration', tier, seed, RULE)
    deadline = time.time() + harness.budget_s(tier)
    det = engines.get('seq_detached') if False else None
    from ..engines import seq_detached
    focus = ['default', 'rels', 'delete', 'reads']

    def cases():
        i = 0
        while True:
            c = seqcommon.gen_case(seed, i, tier, focus=focus[i % len(focus)], tag='c32')
            r = Rng(derive(seed, 'c32d', i))
            ops = seq_detached.DETACHED_OPS
            c['detached'] = [[ops[r.below(len(ops))], r.below(1000), r.below(1000), r.below(1000)]
                             for _ in range(r.randint(4, 10))]
            if r.chance(0.3):
                for s in c['sessions']:
                    s['opts'] = dict(s['opts'], strict=True) if r.chance(0.5) else s['opts']
            c['c13'] = False
            if i % 5 == 4:
                # the database fails while the session ends (commit / rollback / release raise)
                c['end_fault'] = [r.below(len(c['sessions'])), 'ioerr']
            yield c
            i += 1

    with Pool() as pool:
        for case, res in pool.imap_unordered(harness.timed_cases(cases(), deadline)):
            col.add(case, res)
        rc = harness.finish(col, pool, lambda case: engines.get(case['engine']), components=seqcommon.COMPONENTS,
                            assumptions=['"loaded" is read white-box from obj._vals_', 'after a rollback only readability of loaded values '
                                         'is demanded, not their value', 'SQLite only'])
    return rc
