"""C17 - a session's writes are atomic under crashes and database errors."""
import time

from .. import engines, harness
from ..pool import Pool
from ..prng import Rng, derive
from . import seqcommon

RULE = ('write programs (the C09 operation space plus raw db.insert / db.execute statements inside the session, '
        'multi-flush sessions, mid-session commits, obj.flush() of a new / changed / deleted object as a session\'s first write) for optimistic, immediate, optimistic=False and serializable '
        'sessions on a file database, PRAGMA cache_size=1 in part of the runs so that uncommitted pages really reach '
        'the file. (a) crash points, exhaustive per program: the database files are copied before every DB-API call '
        'and after the last one; every distinct copy is opened by a fresh connection (hot-journal recovery) and must '
        'equal the reference model as of the last COMMIT that had returned; a new Database on the surviving file '
        'must complete a read and a write session. (b) error points: for programs with at most 60 DB-API calls every '
        '(call index, legal fault kind) is re-run; afterwards the dump equals the old committed state or, if commit '
        'reported success, the new one; each busy / I/O error point is run a second time with a program that catches the '
        'error inside the session, carries on with its remaining operations (flushes included) and rolls back at the '
        'end - nothing of that session may be in the file. Non-trivial = the program committed at least once with two or more accepted '
        'modifications; distinct by (program, knobs, fault position). (c) connection loss: the single-commit session '
        'shapes of the C19 engine run on a stand-in provider that reconnects after the injected connection-lost error, '
        'once per statement and with a failing or repeated reconnect; the file must hold the state before the session '
        'or the state of the complete session.')

COMPONENTS = {
    'real': ['pony.orm.core flush / commit / rollback, Database._exec_sql, raw SQL paths', 'SQLite provider transaction handling',
             'libsqlite rollback-journal recovery on real files (tmpfs)'],
    'stub': ['DB-API proxy (snapshots, fault injection)', 'reference model',
             'stand-in reconnecting provider (SQLiteProvider with should_reconnect() true for the injected connection-lost error)'],
}

W = {'new': 8, 'set': 6, 'setmany': 2, 'rel': 4, 'add': 4, 'remove': 3, 'assign': 2, 'clear': 1, 'create_in': 3, 'del': 4,
     'flush': 3, 'commit': 2, 'rollback': 1, 'raw_log': 4, 'r_select': 1, 'seq_in': 1, 'oflush': 1, 'oflush_new': 1,
     'oflush_del': 1}
OPTS = [({}, 6), ({'immediate': True}, 2), ({'optimistic': False}, 1), ({'serializable': True}, 2)]


def gen_program(seed, i, tier):
    rs = derive(seed, 'c17', i)
    r = Rng(rs, 'prog')
    pairs = sorted(W.items())
    sessions = []
    for s in range(r.randint(1, 3)):
        ops = []
        for j in range(r.randint(3, 10)):
            op = 'new' if (s == 0 and j < 2) else r.weighted(pairs)
            ops.append([op, r.below(1000), r.below(1000), r.below(1000)])
        if s >= 1 and r.chance(0.3):
            # the session's first write goes out through obj.flush() (one object, outside SessionCache.flush):
            # of a new object, of a changed one or of a deleted one
            first, fl = r.choice([('new', 'oflush_new'), ('del', 'oflush_del'), ('del', 'oflush_del'), ('set', 'oflush')])
            x = r.below(1000)
            ops[0:0] = [[first, x, r.below(1000), r.below(1000)], [fl, x, r.below(1000), r.below(1000)]]
        sessions.append({'opts': r.weighted(OPTS), 'ops': ops, 'end': r.weighted([('exit', 8), ('raise', 1), ('rollback', 1)])})
    knobs = {'fetch': r.below(2)}
    if r.chance(0.5):
        knobs['cache_size'] = 1
    return {'engine': 'crash', 'seed': rs, 'variant': r.choice(['base', 'passport_cascade', 'group_cascade', 'car_optional']),
            'knobs': knobs, 'sessions': sessions, 'flush_policy': r.choice(['never', 'never', 'seeded']),
            'want_calls': True, 'c13': False}


def legal(kind, sql):
    sql = (sql or '').upper()
    if kind == 'connect':
        return ['cantopen']
    if kind in ('execute', 'executemany', 'con.execute'):
        if sql.startswith('PRAGMA'):
            return []
        if sql.startswith('BEGIN') or sql.startswith('SELECT'):
            return ['busy', 'ioerr']
        return ['busy', 'ioerr', 'ioerr_rb', 'full']
    if kind.startswith('fetch'):
        return ['ioerr']
    if kind == 'commit':
        return ['busy', 'ioerr', 'full']
    if kind in ('rollback', 'close'):
        return ['ioerr']
    return []


def main(tier, seed):
    col = harness.Collector('C17', 'fault_enumeration', tier, seed, RULE)
    deadline = time.time() + harness.budget_s(tier)
    stats = {'programs': 0, 'programs_fully_enumerated': 0, 'error_point_runs': 0, 'carried_on_runs': 0}
    pending = []

    def bases():
        i = 0
        while True:
            c = gen_program(seed, i, tier)
            c['_base'] = True
            yield c
            i += 1

    def stream():
        for c in harness.timed_cases(bases(), deadline):
            yield c
            while pending:
                yield pending.pop()

    with Pool() as pool:
        def batches():
            for cr in pool.imap_unordered(stream()):
                yield cr
            # error points of the last programs, whose results arrived after the stream had ended
            while pending and time.time() < deadline + 30:
                rest = pending[:]
                del pending[:]
                for cr in pool.imap_unordered(iter(rest)):
                    yield cr

        for case, res in batches():
            col.add(case, res)
            if case.get('_base') and 'harness_error' not in res:
                stats['programs'] += 1
                calls = res.get('calls') or []
                if len(calls) <= 60:
                    stats['programs_fully_enumerated'] += 1
                    for g, kind, sql in calls:
                        for fk in legal(kind, sql):
                            c2 = dict((k, v) for k, v in case.items() if not k.startswith('_'))
                            c2.update({'engine': 'seq', 'faults': [[g, fk]], 'retag_as': 'C17', 'retag_from': ['C09'],
                                       'retag_label': 'error-injection', 'want_calls': False})
                            pending.append(c2)
                            stats['error_point_runs'] += 1
                            if fk in ('busy', 'ioerr') and kind != 'commit':
                                # the program catches the error inside the session, carries on (later flushes
                                # included) and rolls back in the end: nothing of the session may persist
                                c3 = dict(c2)
                                c3['after_fault'] = 'continue'
                                pending.append(c3)
                                stats['carried_on_runs'] += 1
        col.extra['crash_and_error_points'] = stats
        from . import reconnect
        reconnect.run(pool, col, tier, seed)
        rc = harness.finish(col, pool, lambda case: engines.get(case['engine']), components=COMPONENTS,
                            assumptions=['a crash is process death: what the process had written is in the files (power '
                                         'loss / torn sectors are libsqlite\'s contract, not Pony\'s)',
                                         'faults are delivered before the call takes effect; failing COMMIT with I/O error or '
                                         'disk full rolls the transaction back as SQLite does',
                                         'SQLite only; the provider-neutral reconnect logic runs on a stand-in provider, the '
                                         'should_reconnect() predicates of the other providers are not run here'])
    return rc
