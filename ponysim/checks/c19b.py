"""C19 part B - seeded thread schedules of 2-3 threads running session shapes, with 0-2 faults."""
from .. import engines, harness
from ..prng import Rng, derive

# shapes that are meaningful to run concurrently on one database (ddl_drop would remove a table
# other sessions use, which makes *their* failure legitimate; two_db needs a second database)
CONC_SHAPES = ['ro', 'opt_write', 'immediate', 'serializable', 'nonopt', 'strict', 'decorator', 'nested',
               'commit_more', 'rollback_more', 'generator', 'gen_abandon', 'gen_throw', 'flush_error', 'body_exc',
               'allowed_exc', 'raw', 'get_conn', 'for_update', 'retry', 'disconnect_between', 'collection',
               'manual_rollback_exit', 'db_commit', 'ddl_create', 'ddl_user']

FAULT_KINDS = ['busy', 'ioerr', 'ioerr_rb', 'full']


def gen_case(seed, i, tier):
    rs = derive(seed, 'c19b', i)
    r = Rng(rs, 'prog')
    n_threads = 2 if r.chance(0.7) else 3
    threads = {}
    for t in range(n_threads):
        threads['T%d' % t] = [r.choice(CONC_SHAPES) for _ in range(r.randint(1, 2))]
    faults = []
    nf = r.weighted([(0, 4), (1, 4), (2, 2)])
    for _ in range(nf):
        faults.append(['T%d' % r.below(n_threads), r.below(24), r.below(12)])
    return {'engine': 'conc', 'mode': 'c19b', 'seed': rs, 'threads': threads, 'faults': faults,
            'p_switch': r.choice([0.05, 0.15, 0.3, 0.5]),
            'knobs': {'busy_retries': r.choice([0, 3, 50])}}


def replayable(case, res):
    c = dict(case)
    c['schedule'] = res.get('schedule', [])
    c.pop('p_switch', None)
    return c


def run(pool, col, tier, seed, deadline):
    def cases():
        i = 0
        while True:
            yield gen_case(seed, i, tier)
            i += 1
    n = 0
    for case, res in pool.imap_unordered(harness.timed_cases(cases(), deadline)):
        if res.get('violations'):
            case = replayable(case, res)
        col.add(case, res)
        n += 1
    col.extra['part_b'] = {'schedule_runs': n}
