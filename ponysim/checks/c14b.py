"""C14 concurrent part: 2-3 threads creating / renaming rows onto the same unique key values."""
from ..prng import Rng, derive

RULE_B = ('CONC part: 2-3 scheduled threads x 1-2 sessions that create accounts / tags with names from a pool of three, '
          'rename existing accounts onto those names and write notes, with flushes and mid-session commits; '
          'pre-emption at DB-API calls and between steps; oracle: the committed state (replay of the sessions whose '
          'COMMIT returned) never holds a duplicate key, and the final dump equals that replay, i.e. a session that '
          'met a conflict left nothing behind.')


def gen_case(seed, i, tier, with_faults=False):
    rs = derive(seed, 'c14', i)
    r = Rng(rs, 'prog')
    threads = {}
    for t in range(2 if r.chance(0.7) else 3):
        prog = []
        for s in range(r.randint(1, 2)):
            steps = []
            for _ in range(r.randint(1, 4)):
                op = r.weighted([('create', 4), ('rename', 3), ('tag', 2), ('note', 3), ('flush', 1), ('commit', 1)])
                steps.append([op, r.below(3), r.below(3)])
            prog.append({'steps': steps})
        threads['T%d' % t] = prog
    faults = []
    if with_faults:
        faults.append(['T%d' % r.below(len(threads)), r.below(25), r.below(12)])
    return {'engine': 'conc', 'mode': 'c14', 'seed': rs, 'threads': threads, 'faults': faults,
            'knobs': {'busy_retries': r.choice([0, 3, 50])}, 'p_switch': r.choice([0.1, 0.25, 0.5])}
