"""Connection-loss cases shared by C19 (connection / lock release after a failed reconnect) and C17
(no partial commit when the connection is lost in mid-session).

The reconnect logic in Database._exec_sql / SessionCache.reconnect is provider-neutral but only
reachable with providers whose should_reconnect() can be true (PostgreSQL, MySQL, Oracle).  None of
them can run here, so these cases use a stand-in: the SQLite provider with should_reconnect() true
for the injected 'connection lost' error (a stub, listed as such in the evidence)."""

# shapes that commit exactly once, at the end: "all or nothing" is well defined for them
ATOMIC_SHAPES = ['opt_write', 'immediate', 'serializable', 'nonopt', 'strict', 'decorator', 'nested', 'raw',
                 'for_update', 'bulk_delete', 'collection', 'delete_cascade', 'write_then_read']


def run(pool, col, tier, seed):
    """complete enumeration: every statement of every shape x connection lost there, and the pairs where
    the reconnect itself fails"""
    bases = [{'engine': 'shapes', 'shape': s, 'dbkind': 'file', 'pooled': p, 'faults': [], 'tier': tier,
              'seed': seed, 'reconnecting': True} for s in ATOMIC_SHAPES for p in (True, False)]
    base_res = pool.map(bases)
    singles = []
    for case, res in zip(bases, base_res):
        col.add(case, res)
        if 'harness_error' in res:
            continue
        for call in res['calls']:
            for kind in call['legal']:
                c = dict(case)
                c['faults'] = [[call['g'], kind]]
                c['expect_all'] = res.get('data')
                singles.append(c)
    pairs = []
    for case, res in pool.imap_unordered(singles):
        col.add(case, res)
        if 'harness_error' in res or not res.get('fired') or res['fired'][0][4] != 'connlost':
            continue
        g1 = res['fired'][0][0]
        for call in res['calls']:
            if call['g'] > g1 and call['kind'] == 'connect':
                c = dict(case)
                c['faults'] = case['faults'] + [[call['g'], 'cantopen']]
                pairs.append(c)
                break
        # a second loss on the statement that is retried on the new connection
        later = [call for call in res['calls'] if call['g'] > g1 and call['kind'] == 'execute'
                 and 'connlost' in call['legal']]
        if later:
            c = dict(case)
            c['faults'] = case['faults'] + [[later[0]['g'], 'connlost']]
            pairs.append(c)
    for case, res in pool.imap_unordered(pairs):
        col.add(case, res)
    col.extra['connection_loss'] = {'shapes': len(ATOMIC_SHAPES), 'single_loss_runs': len(singles),
                                    'failed_or_repeated_reconnect_runs': len(pairs), 'provider': 'stand-in (stub)'}
