"""C09 - committed database state equals the state the program committed."""
from . import seqcommon

RULE = ('seeded histories of 1-4 sessions (optimistic / immediate / optimistic=False / serializable / strict) x 3-14 '
        'operations over the kitchen-sink schema family (6 variants: auto / explicit / composite primary keys, unique, '
        'optional-unique, composite unique, one-to-one, one-to-many, many-to-many, symmetric and self relations, '
        'cascade options): create, set, set(**kw), relationship assignment, collection add/remove/clear/assign/create, '
        'delete, reads, flush / commit / rollback, session end by exit, exception or rollback, under flush-timing '
        'policies never / always / seeded; oracle: after every commit the raw dump equals the reference model, after '
        'every rollback / failure it equals the previously committed model. Non-trivial = at least two accepted '
        'modifications and one commit or failed flush; distinct by (variant, sessions, policy, knobs). '
        'Fault kind "peer write" (every 5th history): a second connection commits one small write behind an '
        'optimistic session (deletes an unlinked row, empties a nullable unique column and hands the value to another '
        'row, changes a plain column); the session goes on unjudged, is flushed and rolled back at its end; an UPDATE '
        'that matched no row and was accepted by that flush is a committed change that is not in the database, and '
        'after the rollback the dump equals committed state + the peer\'s write.')


def main(tier, seed):
    return seqcommon.main_for('C09', 'exploration', RULE, ['default', 'rels', 'delete', 'keys', 'mix', 'partial'], tier, seed,
                             extra_gens=[seqcommon.peer_gen('C09')],
                             assumptions=['the model knows the whole database (single writer, or a peer whose one write the '
                                          'simulator makes itself)', 'SQLite only'])
