"""C09 - committed database state equals the state the program committed."""
from . import seqcommon

RULE = ('seeded histories of 1-4 sessions (optimistic / immediate / optimistic=False / serializable / strict) x 3-14 '
        'operations over the kitchen-sink schema family (6 variants: auto / explicit / composite primary keys, unique, '
        'optional-unique, composite unique, one-to-one, one-to-many, many-to-many, symmetric and self relations, '
        'cascade options): create, set, set(**kw), relationship assignment, collection add/remove/clear/assign/create, '
        'delete, reads, flush / commit / rollback, session end by exit, exception or rollback, under flush-timing '
        'policies never / always / seeded; oracle: after every commit the raw dump equals the reference model, after '
        'every rollback / failure it equals the previously committed model. Non-trivial = at least two accepted '
        'modifications and one commit or failed flush; distinct by (variant, sessions, policy, knobs).')


def main(tier, seed):
    return seqcommon.main_for('C09', 'exploration', RULE, ['default', 'rels', 'delete', 'keys', 'mix', 'partial'], tier, seed)
