"""Case generator and driver shared by the SEQ-engine properties."""
import time

from .. import engines, harness, seqschema
from ..pool import Pool
from ..prng import Rng, derive

BASE_W = {'new': 6, 'set': 5, 'setmany': 2, 'setmix': 2, 'seq_probe': 2, 'late_link': 1, 'rel': 4, 'add': 3, 'remove': 3, 'clear': 1, 'assign': 2, 'create_in': 2,
          'del': 3, 'set_none': 1, 'setpk': 1, 'flush': 2, 'commit': 1, 'rollback': 1, 'seq_in': 2, 'new_rawfk': 1,
          'r_attr': 2, 'r_pk': 1, 'r_get': 1, 'r_exists': 1, 'r_select': 1, 'r_count': 1, 'r_aggr': 1, 'r_coll': 2,
          'r_todict': 1, 'r_getrel': 1, 'oflush': 1, 'oflush_del': 1, 'fail_probe': 2, 'partial': 1, 'jedit': 2, 'r_proxy': 1}

FOCUS = {
    'default': {},
    'reads': {'r_attr': 6, 'r_pk': 3, 'r_get': 4, 'r_exists': 2, 'r_select': 4, 'r_count': 3, 'r_aggr': 2, 'r_coll': 6,
              'r_todict': 2, 'flush': 1, 'r_getrel': 4, 'fail_probe': 3},
    'delete': {'del': 8, 'new': 8, 'rel': 5, 'add': 4, 'create_in': 4, 'bulk_del': 2, 'fail_probe': 9, 'del_ref': 3},
    'keys': {'new': 9, 'set': 8, 'setmany': 4, 'del': 3, 'setpk': 2, 'r_proxy': 4, 'r_pk': 3, 'proxy_reuse': 2},
    'fail': {'fail_probe': 8, 'new': 8, 'set': 6, 'setmany': 5, 'setmix': 6, 'rel': 6, 'del': 6, 'set_none': 2, 'setpk': 2, 'assign': 3, 'remove': 4},
    'rels': {'fail_probe': 3, 'setmix': 4, 'seq_probe': 6, 'rel': 8, 'add': 6, 'remove': 5, 'assign': 4, 'clear': 2, 'create_in': 4, 'r_attr': 4, 'r_coll': 4,
             'seq_in': 6},
    # obj.set(...) / constructors that touch several relationships at once, on the variants where a later part refuses
    'mix': {'setmix': 12, 'set': 6, 'create_in': 5, 'new': 8, 'remove': 3, 'add': 3, 'seq_probe': 3, 'del': 3},
    # C23: many stored rows with links, then selects / navigation in later sessions (batch splitting, prefetch)
    'load': {'new': 10, 'add': 8, 'rel': 6, 'create_in': 3, 'r_select': 9, 'r_coll': 6, 'r_attr': 5, 'r_todict': 2,
             'commit': 2, 'del': 1, 'remove': 2},
    # many linked rows first, then sessions that meet them partly loaded (see op_partial)
    'partial': {'new': 10, 'add': 9, 'rel': 5, 'create_in': 3, 'partial': 12, 'seq_in': 3, 'r_coll': 3, 'commit': 1,
                'del': 1, 'remove': 2, 'fail_probe': 2},
    'order': {'cycle': 3, 'chain': 6, 'new': 10, 'rel': 6, 'del': 5, 'add': 3, 'create_in': 4, 'flush': 1, 'late_link': 6, 'oflush': 2},
}

SESSION_OPTS = [({}, 10), ({'immediate': True}, 2), ({'optimistic': False}, 2), ({'serializable': True}, 1),
                ({'strict': True}, 1), ({'ddl': True}, 1)]


def gen_case(seed, i, tier, focus='default', loading=False, tag='seq'):
    rs = derive(seed, tag, focus, i)
    r = Rng(rs, 'prog')
    w = dict(BASE_W)
    w.update(FOCUS.get(focus, {}))
    # swarm: drop a random third of the op kinds in each run
    kinds = sorted(w)
    drop = set(r.sample(kinds, r.below(len(kinds) // 3 + 1)))
    drop -= {'new'}
    pairs = [(k, w[k]) for k in kinds if k not in drop]
    sessions = []
    n_sess = r.randint(1, 4)
    for s in range(n_sess):
        ops = []
        n = r.randint(3, 14)
        builders = None
        if focus in ('partial', 'load') and s == 0:
            # the first session only builds: many rows, many links, all stored when the later sessions start
            n = r.randint(12, 20)
            builders = [('new', 5), ('add', 5), ('rel', 2), ('create_in', 2)]
        for j in range(n):
            if s == 0 and j < 3:
                op = 'new'
            elif builders:
                op = r.weighted(builders)
            else:
                op = r.weighted(pairs)
            ops.append([op, r.below(1000), r.below(1000), r.below(1000)])
        if s >= 1 and r.chance(0.9 if focus == 'partial' else 0.35):
            # a later session starts with a partly loaded collection and a pending change (see op_partial)
            ops.insert(0, ['partial', r.below(1000), r.below(1000), r.below(1000)])
        if focus == 'load' and s >= 1 and r.chance(0.5):
            # the session starts with a select (with prefetch under the loading knobs) and walks the collections
            ops[0:0] = [['r_select', r.below(1000), r.below(1000), r.below(1000)]] + \
                       [['r_coll', r.below(1000), r.below(1000), r.below(1000)] for _ in range(r.randint(2, 4))]
        if focus == 'delete' and s >= 1 and r.chance(0.3):
            # the session starts by deleting an object it knows only as a reference (nothing is loaded yet)
            ops.insert(0, ['del_ref', r.below(1000), r.below(1000), r.below(1000)])
        if focus == 'keys' and s >= 1 and r.chance(0.3):
            # the session's first write is obj.flush() of a new object (outside SessionCache.flush), more keys follow
            ops[0:0] = [['new', r.below(1000), r.below(1000), r.below(1000)],
                        ['oflush_new', r.below(1000), r.below(1000), r.below(1000)]]
        end = r.weighted([('exit', 7), ('raise', 1.5), ('rollback', 1.5)])
        sessions.append({'opts': r.weighted(SESSION_OPTS), 'ops': ops, 'end': end})
    knobs = {'fetch': r.below(3)}
    if loading:
        if r.chance(0.5):
            knobs['lazy_attrs'] = True
        if r.chance(0.3):
            knobs['lazy_sets'] = True
        if r.chance(0.3):
            knobs['lazy_refs'] = True       # reference attributes that own the foreign key columns are lazy
        if r.chance(0.6):
            knobs['max_params_count'] = r.choice([2, 3, 5])
        knobs['nplus1'] = r.choice([None, 0, 1, 3])
        knobs['prefetch'] = r.chance(0.3)
        if focus == 'load':
            knobs['prefetch'] = r.chance(0.7)
            knobs['max_params_count'] = r.choice([2, 2, 3, 5])
    variant = r.choice(list(seqschema.VARIANTS))
    if focus == 'order' and r.chance(0.35):
        variant = 'profile_pk'      # a primary key that is a reference: one more level of save-order dependencies
    if focus == 'delete' and r.chance(0.5):
        # the variants that flip cascade_delete / required-ness: where the delete rules differ from the defaults
        variant = r.choice(['car_nocascade', 'car_nocascade', 'cascade_mix', 'cascade_mix', 'passport_req_cascade',
                            'group_cascade', 'passport_cascade', 'car_explicit_pk'])
    if focus == 'mix':
        variant = r.choice(['car_nocascade', 'car_nocascade', 'car_nocascade', 'group_owner', 'base'])
    case = {'engine': 'seq', 'seed': rs, 'variant': variant, 'knobs': knobs,
            'sessions': sessions, 'flush_policy': r.choice(['never', 'never', 'always', 'seeded'])}
    if tag != 'c13':
        case['go_on_after_c13'] = True
    if r.chance(0.12):
        # an in-memory database shared inside the process (':sharedmemory:'): Pony's pool keeps its connection for good
        knobs['dbkind'] = 'shared'
    return case


def peer_gen(prop, every=5):
    """extra generator: histories in which a peer process commits a write behind an optimistic session's back
    (fault kind 'peer write', see op_peer): the later sessions are plain optimistic ones, the peer's write comes
    early in them (before the session's first flush takes the database lock) and rows are read again afterwards"""
    def gen(seed, i, tier):
        if i % every:
            return None
        c = gen_case(seed, i, tier, focus=('keys', 'reads', 'default')[i // every % 3], tag=prop.lower() + 'peer')
        r = Rng(derive(seed, prop.lower(), 'peer', i), 'ins')
        if len(c['sessions']) < 2:
            c['sessions'].append({'opts': {}, 'ops': [], 'end': 'exit'})
        for s in c['sessions'][1:]:
            s['opts'] = {}
            s['ops'] = [op for op in s['ops'] if op[0] != 'partial']
            s['ops'].insert(r.below(min(3, len(s['ops'])) + 1), ['peer', r.below(1000), r.below(1000), r.below(1000)])
            for _ in range(r.randint(1, 2)):
                s['ops'].append([r.choice(['r_select', 'r_select', 'r_get', 'r_attr', 'set']), r.below(1000), r.below(1000),
                                 r.below(1000)])
        c['knobs'].pop('dbkind', None)
        c['flush_policy'] = 'never'
        return c
    return gen


COMPONENTS = {
    'real': ['pony.orm.core (Entity, Attribute, Set, SessionCache, Query)', 'pony.orm.sqltranslation / sqlbuilding',
             'SQLite provider + sqlite3 on a tmpfs file'],
    'stub': ['DB-API proxy (fault injection, event log)', 'executable reference model (ponysim.sessmodel)'],
}


def main_for(prop, level, rule, focus_list, tier, seed, loading=False, extra_gens=None, assumptions=None):
    col = harness.Collector(prop, level, tier, seed, rule)
    deadline = time.time() + harness.budget_s(tier)

    def cases():
        i = 0
        while True:
            f = focus_list[i % len(focus_list)]
            yield gen_case(seed, i, tier, focus=f, loading=loading, tag=prop.lower())
            if extra_gens:
                for g in extra_gens:
                    c = g(seed, i, tier)
                    if c is not None:
                        yield c
            i += 1

    with Pool() as pool:
        for case, res in pool.imap_unordered(harness.timed_cases(cases(), deadline)):
            col.add(case, res)
        rc = harness.finish(col, pool, lambda case: engines.get(case['engine']), components=COMPONENTS,
                            assumptions=assumptions or ['single-threaded histories: the model knows the whole database',
                                                        'SQLite only'])
    return rc
