"""C23 - the loading strategy never changes the data a program observes."""
import time

from .. import engines, harness
from ..pool import Pool
from . import seqcommon

RULE = ('the C09/C10 histories executed under seeded loading knobs, every configuration checked against the same '
        'reference model (conformance under each knob, not pairwise diffing): every optional attribute lazy, lazy '
        'collections, nplus1_threshold in {None, 0, 1, 3}, provider.max_params_count in {2, 3, 5} (batch splitting; the '
        'default 999 never splits), prefetch() of every relation on generated selects, objects first reached as unloaded '
        'references (navigation from a referring row) or by primary-key lookup; any C09/C10/C11/C12 oracle failing '
        'under a knob set is a C23 violation. Non-trivial and distinct as for C09 (knobs are part of the identity).')


def main(tier, seed):
    col = harness.Collector('C23', 'exploration', tier, seed, RULE)
    deadline = time.time() + harness.budget_s(tier)
    focus = ['reads', 'rels', 'load', 'partial', 'default', 'delete', 'load', 'partial']

    def cases():
        i = 0
        while True:
            c = seqcommon.gen_case(seed, i, tier, focus=focus[i % len(focus)], loading=True, tag='c23')
            c['retag_as'] = 'C23'
            if i % 2:
                c['knobs']['fetch'] = 2
            yield c
            i += 1

    with Pool() as pool:
        for case, res in pool.imap_unordered(harness.timed_cases(cases(), deadline)):
            col.add(case, res)
        rc = harness.finish(col, pool, lambda case: engines.get(case['engine']), components=seqcommon.COMPONENTS,
                            assumptions=['single-threaded histories: the model knows the whole database', 'SQLite only'])
    return rc
