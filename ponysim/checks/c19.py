"""C19 - connections and the SQLite transaction lock are always released."""
import time

from .. import engines, harness
from ..pool import Pool
from ..prng import Rng

RULE = ('Part A: every session shape (%d shapes x db kind x pooled/unpooled) is first run fault-free to record its '
        'DB-API call sequence, then re-run once per (call index, legal fault kind) and once per pair where the '
        'second fault lands in the error-handling path of the first; a case is non-trivial when at least one '
        'injected fault fired, distinct by (shape, db kind, pooled, fired fault list). '
        'Connection loss: the single-commit shapes are also run with a stand-in provider whose should_reconnect() is '
        'true for the injected connection-lost error, once per statement, plus the pairs where the reconnect itself '
        'cannot open a connection or the retried statement fails again (the "failed reconnect" clause). '
        'Part B: seeded thread schedules of 2-3 sessions with 0-2 faults (engine conc).')

COMPONENTS = {
    'real': ['pony.orm.core (db_session, SessionCache, Database)', 'pony.orm.dbapiprovider (Pool, DBAPIProvider)',
             'pony.orm.dbproviders.sqlite (SQLiteProvider, SQLitePool)', 'CPython sqlite3 + libsqlite on tmpfs files'],
    'stub': ['thin DB-API proxy (ponysim.simdb) around sqlite3', 'SimLock replacing threading.Lock in the SQLite provider',
             'seeded scheduler (Part B)',
             'stand-in reconnecting provider: SQLiteProvider with should_reconnect() true for the injected connection-lost '
             'error (the PostgreSQL/MySQL/Oracle providers themselves cannot run here)'],
}


def gen_part_a(pool, col, tier, deadline):
    shapes = engines.get('shapes')
    combos = []
    for shape in shapes.SHAPE_NAMES:
        for dbkind in (('file', 'memory', 'shared') if tier == 'thorough' else ('file', 'memory')):
            if dbkind != 'file' and shape.startswith('two_db'):
                continue
            for pooled in (True, False):
                if dbkind != 'file' and not pooled:
                    continue
                combos.append({'engine': 'shapes', 'shape': shape, 'dbkind': dbkind, 'pooled': pooled,
                               'faults': [], 'tier': tier, 'seed': col.seed})
    base = pool.map(combos)
    singles = []
    for case, res in zip(combos, base):
        col.add(case, res)
        if 'harness_error' in res:
            continue
        for call in res['calls']:
            for kind in call['legal']:
                c = dict(case)
                c['faults'] = [[call['g'], kind]]
                singles.append(c)
    pairs = []
    complete = True
    for case, res in pool.imap_unordered(singles):
        col.add(case, res)
        if 'harness_error' in res or not res.get('fired'):
            continue
        g1 = res['fired'][0][0]
        later = [c for c in res['calls'] if c['g'] > g1]
        limit = 12 if tier == 'thorough' else 6
        for call in later[:limit]:
            for kind in call['legal']:
                if tier != 'thorough' and kind in ('ioerr_rb', 'full'):
                    continue
                c = dict(case)
                c['faults'] = case['faults'] + [[call['g'], kind]]
                pairs.append(c)
    n_pairs = 0
    for case, res in pool.imap_unordered(harness.timed_cases(iter(pairs), deadline)):
        col.add(case, res)
        n_pairs += 1
    if n_pairs < len(pairs):
        complete = False
    col.extra['part_a'] = {'shapes': len(shapes.SHAPE_NAMES), 'combos': len(combos), 'single_fault_runs': len(singles),
                           'pair_fault_runs': n_pairs, 'pair_fault_planned': len(pairs), 'complete': complete}
    return complete


def main(tier, seed):
    col = harness.Collector('C19', 'fault_enumeration', tier, seed, RULE)
    deadline = time.time() + harness.budget_s(tier)
    with Pool() as pool:
        complete = gen_part_a(pool, col, tier, deadline)
        col.exhaustive = complete
        from . import reconnect
        reconnect.run(pool, col, tier, seed)
        try:
            from . import c19b
        except ImportError:
            c19b = None
        if c19b is not None:
            c19b.run(pool, col, tier, seed, deadline)
        rc = harness.finish(col, pool, lambda case: engines.get(case['engine']),
                            components=COMPONENTS,
                            assumptions=['faults are delivered before the call takes effect (SQLite statement atomicity); '
                                         'a failing close() still releases the handle',
                                         'SQLite only: PostgreSQL/MySQL/Oracle pools cannot run in this sandbox'])
    return rc
