"""C35 - locked rows and serializable sessions cannot be overwritten concurrently."""
from ..prng import Rng, derive
from . import c20

RULE = ('a locking session (get_for_update / select().for_update() with nowait and skip_locked variants, or a '
        'serializable / optimistic=False session that merely reads) interleaved with Pony writers (locked increments, '
        'optimistic note writes) and an external raw sqlite3 writer that ignores Pony\'s Python-level lock; pre-emption '
        'at DB-API calls, lock operations, between steps and between the raw writer\'s statements; oracle: while a '
        'session holds a row no other actor\'s write to it is committed, locking sessions never fail with isolation '
        'errors, final balances = initial + committed increments, no deadlock. Non-trivial = another actor attempted a '
        'write while a lock was held; distinct by (programs, schedule).')

COMPONENTS = {
    'real': ['pony.orm.core for_update paths (_find_in_cache_, _find_in_db_, Query.for_update, cache.for_update)',
             'SQLite provider transaction lock + BEGIN IMMEDIATE', 'sqlite3 / libsqlite file locking on tmpfs'],
    'stub': ['seeded scheduler', 'DB-API proxy', 'SimLock', 'external writer = raw sqlite3 connection driven by the scheduler'],
}


def gen_case(seed, i, tier, with_faults=False):
    rs = derive(seed, 'c35', i)
    r = Rng(rs, 'prog')
    hot = r.below(3)

    def nm():
        return hot if r.chance(0.8) else r.below(3)

    threads = {}
    # T0: the locker
    prog = []
    for s in range(r.randint(1, 2)):
        kind = r.weighted([('opt', 6), ('serializable', 2), ('nonopt', 2), ('immediate', 1)])
        steps = []
        if kind in ('opt', 'immediate'):
            steps.append(['lock', nm(), r.below(5)])
        for _ in range(r.randint(2, 7)):
            op = r.weighted([('read', 3), ('incr', 3), ('yield', 3), ('flush', 1), ('lock', 1), ('commit', 1),
                            ('incr_cached', 1 if kind in ('serializable', 'nonopt') else 0)])
            steps.append([op, nm(), r.below(5)])
        prog.append({'role': 'locker', 'kind': kind, 'steps': steps})
    threads['T0'] = prog
    n_other = r.randint(1, 2)
    for t in range(1, 1 + n_other):
        if r.chance(0.55):
            steps = [[r.choice(['xincr', 'xincr', 'xnote']), nm(), 0] for _ in range(r.randint(1, 3))]
            threads['T%d' % t] = [{'role': 'ext', 'steps': steps}]
        else:
            prog = []
            for s in range(r.randint(1, 2)):
                if r.chance(0.6):
                    steps = [['lock', nm(), r.below(2)], ['incr', 0, 0]]
                    steps[1][1] = steps[0][1]
                    prog.append({'role': 'writer', 'kind': 'opt', 'steps': steps})
                else:
                    prog.append({'role': 'writer', 'kind': 'opt', 'steps': [['wnote', nm(), 0]]})
            threads['T%d' % t] = prog
    faults = []
    if with_faults:
        faults.append(['T%d' % r.below(len(threads)), r.below(30), r.below(12)])
    knobs = {'busy_retries': r.choice([0, 3, 50])}
    if r.chance(0.2):
        knobs['cache_size'] = 1
    return {'engine': 'conc', 'mode': 'c35', 'seed': rs, 'threads': threads, 'faults': faults, 'knobs': knobs,
            'p_switch': r.choice([0.1, 0.25, 0.5])}


def main(tier, seed):
    return c20.main(tier, seed, prop='C35', mode='c35', rule=RULE, components=COMPONENTS, gen=gen_case)
