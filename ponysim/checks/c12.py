"""C12 - both ends of every relationship stay consistent."""
from . import seqcommon

RULE = ('the C09 histories with a relationship-heavy mix; after every operation, over loaded state only: b in a.coll '
        'iff b.ref is a, one-to-one links mutual, many-to-many ends agree when fully loaded, cached counts agree with '
        'fully loaded contents, added and removed disjoint, no live collection or reference holds a deleted object; '
        'reads of both ends are compared with the reference model, link tables with the model at commit. Non-trivial '
        'and distinct as for C09.')


def main(tier, seed):
    return seqcommon.main_for('C12', 'exploration', RULE, ['rels', 'partial', 'rels', 'delete', 'default', 'mix', 'partial'], tier, seed)
