"""C21 - repeated reads in a session return the same value or fail loudly."""
from ..prng import Rng, derive
from . import c20

RULE = ('one reading session (optimistic mostly; also optimistic=False / serializable) of 4-12 steps re-reading '
        'attributes and collections through every refresh path (get, select, select one, load(), prefetch, navigation, '
        'locking fetches get_for_update / select().for_update() of rows read before without lock, '
        'batch loads, iteration/len/count()/is_empty()/in) against 1-2 writer threads committing updates, deletes, '
        'moves between owners, new items and many-to-many link changes; pre-emption at DB-API calls and between steps; '
        'oracle over the reader history: per (object, non-volatile attribute) and per collection once observed fully '
        'loaded, values are constant until the first error. Non-trivial = a writer committed while the reader session '
        'was open; distinct by (programs, schedule).')

COMPONENTS = {
    'real': ['pony.orm.core identity map refresh (_db_set_, Set.load, db_reverse_add/remove, _fetch_objects)',
             'SQLite provider + sqlite3 on a tmpfs file'],
    'stub': ['seeded scheduler', 'DB-API proxy', 'SimLock'],
}

R_STEPS = [('get', 2), ('attr', 6), ('tick', 1), ('item_attr', 3), ('sel', 2), ('sel_items', 2), ('sel_one', 1),
           ('load', 1), ('prefetch', 1), ('items_iter', 3), ('items_len', 2), ('items_count', 1), ('items_empty', 1),
           ('items_in', 1), ('tags_iter', 2), ('tags_len', 1), ('nav', 2), ('card', 2), ('card_acct', 2), ('own_write', 2), ('flush', 1), ('commit', 1),
           ('lock_get', 2), ('lock_sel', 1), ('prefetch_tags', 1)]
W_STEPS = [('upd', 5), ('relink', 2), ('upd_item', 2), ('move', 3), ('del_item', 1), ('new_item', 1), ('tag_add', 1), ('tag_remove', 2)]


def gen_case(seed, i, tier, with_faults=False):
    rs = derive(seed, 'c21', i)
    r = Rng(rs, 'prog')
    hot = r.below(3)
    hot_item = r.below(6)
    hot_attr = r.choice([0, 1, 2, 3, 4, 5, 5, 5])      # the nullable attribute more often

    def arg1(item=False):
        if item:
            return hot_item if r.chance(0.7) else r.below(6)
        return hot if r.chance(0.7) else r.below(3)

    threads = {}
    w_steps = W_STEPS
    rprog = []
    for s in range(r.randint(1, 2)):
        steps = []
        for _ in range(r.randint(4, 12)):
            op = r.weighted(R_STEPS)
            item = op in ('item_attr', 'tags_iter', 'tags_len', 'nav')
            b = r.below(10) if op != 'items_in' else hot_item
            if op == 'attr' and r.chance(0.6):
                b = hot_attr             # the reader keeps coming back to one attribute ...
            steps.append([op, arg1(item), b])
        if r.chance(0.5):
            # mirror form: observe, do something of its own in between (write another attribute of the same
            # object, flush, commit - the transaction ends, the session and what it has seen do not), observe the
            # same things again
            first = [st for st in steps if st[0] not in ('own_write', 'flush', 'commit')][:r.randint(1, 4)]
            mid = []
            for _ in range(r.randint(0, 3)):
                m = r.weighted([('own_write', 3), ('commit', 3), ('flush', 1), ('sel', 1), ('get', 1), ('lock_get', 2),
                                ('lock_sel', 1)])
                mid.append([m, hot if r.chance(0.8) else r.below(3), r.below(10)])
            steps = first + mid + [list(st) for st in first]
        elif r.chance(0.2):
            # one-to-one form: both ends of the hot account's card are read, another card is loaded later (which
            # tells the account it names - a writer may have re-linked it meanwhile), both ends are read again
            other = r.below(4)
            steps = [['card', hot, 0], ['card_acct', 0, hot]]
            if r.chance(0.5):
                steps.append([r.choice(['commit', 'get', 'sel']), hot, 0])
            steps += [['card_acct', 0, other], ['card', hot, 0], ['card_acct', 0, hot]]
            if r.chance(0.5):
                steps.append(['card_acct', 0, other])
        elif r.chance(0.15):
            # read-then-write-elsewhere form: an attribute is read (the nullable one most of the time, NULL at the
            # start), another attribute of the same object is written and saved, the first one is read again
            ra = 5 if r.chance(0.7) else r.below(6)
            hot_attr = ra
            steps = [['attr', hot, ra], ['own_write', hot, r.below(2)], [r.choice(['commit', 'commit', 'flush']), 0, 0]]
            for _ in range(r.randint(0, 2)):
                steps.append([r.choice(['commit', 'sel', 'get', 'tick', 'items_len']), hot, 0])
            steps.append(['attr', hot, ra])
        elif r.chance(0.3):
            # write-first form: the session assigns an attribute it has not read, may read it back, commits
            # (the session goes on), lets the row be fetched again in some way, and reads the attribute
            wa = r.below(2)                       # bal / note: what own_write writes and 'attr' index 0 / 1 reads
            hot_attr = wa
            steps = [['own_write', hot, wa]]
            if r.chance(0.5):
                steps.append(['attr', hot, wa])
            steps.append([r.choice(['commit', 'commit', 'flush']), 0, 0])
            for _ in range(r.randint(1, 3)):
                steps.append([r.choice(['sel', 'sel_one', 'load', 'get', 'prefetch', 'attr', 'items_iter', 'commit']), hot, wa])
            steps.append(['attr', hot, wa])
        elif r.chance(0.15):
            # empty-collection form: the tags of the item that has none are read (fully loaded, empty), the tags of
            # other items are loaded afterwards (a batch load: which collections does it ask for again?), the
            # first item's tags are read again; the writers mostly add tags to that item
            hot_item = 5
            w_steps = [('tag_add', 6), ('tag_remove', 1), ('upd_item', 1), ('upd', 1)]
            steps = [[r.choice(['tags_iter', 'tags_len']), 5, 0]]
            for _ in range(r.randint(1, 3)):
                steps.append([r.choice(['tags_iter', 'tags_iter', 'tags_len', 'item_attr', 'sel_items', 'prefetch_tags']), r.below(5), r.below(3)])
            steps.append(['tags_iter', 5, 0])
            if r.chance(0.5):
                steps += [['tags_iter', r.below(5), 0], ['tags_len', 5, 0]]
        kind = r.weighted([('opt', 8), ('nonopt', 1), ('serializable', 1)])
        rprog.append({'role': 'reader', 'kind': kind, 'steps': steps})
    threads['T0'] = rprog
    for t in range(1, 2 + (1 if r.chance(0.4) else 0)):
        prog = []
        for s in range(r.randint(1, 3)):
            steps = []
            for _ in range(r.randint(1, 2)):
                op = r.weighted(w_steps)
                item = op in ('upd_item', 'move', 'del_item', 'tag_add', 'tag_remove')
                b = r.below(10)
                if op == 'upd' and r.chance(0.6):
                    b = hot_attr         # ... which the writers change
                if op == 'relink' and r.chance(0.7):
                    steps.append([op, hot, b])      # a card (any) goes to the hot account
                    continue
                steps.append([op, arg1(item), b])
            prog.append({'role': 'writer', 'steps': steps})
        threads['T%d' % t] = prog
    faults = []
    if with_faults:
        faults.append(['T%d' % r.below(len(threads)), r.below(30), r.below(12)])
    knobs = {'busy_retries': r.choice([0, 3, 50])}
    return {'engine': 'conc', 'mode': 'c21', 'seed': rs, 'threads': threads, 'faults': faults, 'knobs': knobs,
            'p_switch': r.choice([0.05, 0.15, 0.3])}


def main(tier, seed):
    return c20.main(tier, seed, prop='C21', mode='c21', rule=RULE, components=COMPONENTS, gen=gen_case)
