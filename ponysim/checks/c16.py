"""C16 - flush emits writes in an order the database accepts."""
from . import seqcommon

RULE = ('the C09 histories with a creation / linking / deletion mix under immediately enforced foreign keys; a flush or '
        'commit that fails is a violation when the session is clean (no key value released and re-taken inside the '
        'flush window, no reference cycle among not yet inserted objects, no injected fault, no duplicate pending); '
        'with a cycle the flush may raise but then nothing is committed (checked on the dump). Non-trivial and '
        'distinct as for C09.')


def main(tier, seed):
    return seqcommon.main_for('C16', 'exploration', RULE, ['order', 'order', 'delete', 'rels'], tier, seed)
