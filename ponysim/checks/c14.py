"""C14 - primary and unique keys are never silently duplicated (SEQ histories + concurrent creators)."""
import time

from .. import engines, harness
from ..pool import Pool
from . import c14b, seqcommon

RULE = ('SEQ part: the C09 histories with a key-heavy mix over explicit / auto / composite primary keys, unique, '
        'optional-unique (None never conflicts) and composite unique keys, key values moved between objects, delete '
        'then re-create; a change that duplicates a key held by another row of the model must be refused at the '
        'operation or by the (injected) flush, a conflict at flush leaves the dump equal to the previous committed '
        'state, and no dump ever holds equal key values. ' + c14b.RULE_B)

COMPONENTS = {
    'real': ['pony.orm.core key indexes (update_simple_index, db_update_simple_index, composite indexes), '
             '_save_created_/_save_updated_', 'SQLite UNIQUE / PRIMARY KEY constraints through sqlite3'],
    'stub': ['seeded scheduler (CONC part)', 'DB-API proxy', 'SimLock', 'reference model (SEQ part)'],
}


def main(tier, seed):
    col = harness.Collector('C14', 'exploration', tier, seed, RULE)
    deadline = time.time() + harness.budget_s(tier)

    def cases():
        i = 0
        while True:
            c = seqcommon.gen_case(seed, i, tier, focus='keys', tag='c14')
            if i % 3 == 2:
                # legacy schema: no UNIQUE constraints in the database, only the session can report a conflict
                c['knobs']['legacy_keys'] = True
                c['knobs']['fetch'] = 0      # objects are fetched by primary key: every unique attribute is loaded
            yield c
            c = c14b.gen_case(seed, i, tier, with_faults=(i % 4 == 3))
            c['_conc'] = True
            yield c
            i += 1

    with Pool() as pool:
        for case, res in pool.imap_unordered(harness.timed_cases(cases(), deadline)):
            if case.get('_conc') and res.get('violations'):
                case = dict(case)
                case['schedule'] = res.get('schedule', [])
                case.pop('p_switch', None)
            col.add(case, res)
        rc = harness.finish(col, pool, lambda case: engines.get(case['engine']), components=COMPONENTS,
                            assumptions=['SQLite only', 'SEQ part: the model knows the whole database'])
    return rc
