"""C14 - primary and unique keys are never silently duplicated (CONC part; SEQ part in c14a when built)."""
from . import c14b, c20

COMPONENTS = {
    'real': ['pony.orm.core key indexes (update_simple_index, db_update_simple_index), _save_created_/_save_updated_',
             'SQLite UNIQUE / PRIMARY KEY constraints through sqlite3'],
    'stub': ['seeded scheduler', 'DB-API proxy', 'SimLock'],
}


def main(tier, seed):
    return c20.main(tier, seed, prop='C14', mode='c14', rule=c14b.RULE_B, components=COMPONENTS, gen=c14b.gen_case)
