"""C10 - lookups and queries inside a session see the session's own unflushed changes."""
from . import seqcommon

RULE = ('the C09 histories with a read-heavy operation mix: attribute access, Entity[pk], get() by primary / unique / '
        'non-unique attributes, exists(), select() with keyword, generator and lambda filters, count(), aggregates, '
        'collection len / in / count() / is_empty() / iteration / select(), to_dict(); every answer is compared with '
        'the reference model session view, under injected flush timing never / always / seeded. Non-trivial and '
        'distinct as for C09.')


def main(tier, seed):
    return seqcommon.main_for('C10', 'exploration', RULE, ['reads', 'reads', 'default', 'rels', 'partial'], tier, seed)
