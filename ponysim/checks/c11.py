"""C11 - one in-memory object per primary key per session."""
from . import seqcommon

RULE = ('the C09 histories; after every operation the key indexes of the session cache are compared with the objects '
        '(every entry maps a key to a live object holding that key; every live object is reachable under its primary '
        'key and its non-None unique / composite keys), and every object obtained through Entity[pk], get(), select(), '
        'navigation, collection iteration and to_dict() must be the very Python object already held for that row. '
        'Non-trivial and distinct as for C09.  Fault kind "peer write" (every 4th history, see C09): after a peer '
        'process changed rows behind the session (key value emptied and handed to another row, row deleted, column '
        'changed) and the session read rows again, the index invariants still hold after every operation that returned.')


def main(tier, seed):
    return seqcommon.main_for('C11', 'exploration', RULE, ['keys', 'reads', 'default', 'fail'], tier, seed,
                             extra_gens=[seqcommon.peer_gen('C11', every=4)])
