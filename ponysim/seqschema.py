"""The kitchen-sink schema family of the SEQ engine and its value pools."""
import copy

BASE_SPEC = [
    ('Person', [
        ('id', 'pk', {'type': 'int', 'auto': True}),
        ('name', 'req', {'type': 'str'}),
        ('email', 'opt', {'type': 'str', 'unique': True, 'nullable': True}),
        ('age', 'opt', {'type': 'int'}),
        ('score', 'opt', {'type': 'float'}),
        ('nick', 'opt', {'type': 'str'}),
        ('passport', 'opt', {'rel': 'Passport', 'reverse': 'person'}),
        ('group', 'opt', {'rel': 'Group', 'reverse': 'members'}),
        ('courses', 'set', {'rel': 'Course', 'reverse': 'students'}),
        ('friends', 'set', {'rel': 'Person', 'reverse': 'friends'}),
        ('boss', 'opt', {'rel': 'Person', 'reverse': 'minions'}),
        ('minions', 'set', {'rel': 'Person', 'reverse': 'boss'}),
        ('cars', 'set', {'rel': 'Car', 'reverse': 'owner'}),
    ], {'composite_keys': [('name', 'age')]}),
    ('Passport', [
        ('code', 'pk', {'type': 'str'}),
        ('person', 'req', {'rel': 'Person', 'reverse': 'passport'}),
        ('country', 'opt', {'type': 'str'}),
    ], {}),
    ('Group', [
        ('dept', 'pk', {'type': 'int', 'pk_part': True}),
        ('num', 'pk', {'type': 'int', 'pk_part': True}),
        ('title', 'opt', {'type': 'str'}),
        ('members', 'set', {'rel': 'Person', 'reverse': 'group'}),
    ], {}),
    ('Course', [
        ('id', 'pk', {'type': 'int', 'auto': True}),
        ('name', 'req', {'type': 'str', 'unique': True}),
        ('credits', 'req', {'type': 'int', 'default': 1}),
        # a tracked value: changes made in place (meta['k'] = 1, meta['l'].append(2)) are changes of the object
        ('meta', 'opt', {'type': 'Json'}),
        ('students', 'set', {'rel': 'Person', 'reverse': 'courses'}),
    ], {}),
    ('Car', [
        ('id', 'pk', {'type': 'int', 'auto': True}),
        ('owner', 'req', {'rel': 'Person', 'reverse': 'cars'}),
        ('plate', 'req', {'type': 'str', 'unique': True}),
        ('seats', 'opt', {'type': 'int'}),
    ], {}),
    # written through raw SQL inside sessions (db.insert / db.execute): part of the same transaction (C17)
    ('Log', [
        ('id', 'pk', {'type': 'int', 'auto': True}),
        ('msg', 'req', {'type': 'str'}),
    ], {}),
]

VARIANTS = ('base', 'passport_cascade', 'group_cascade', 'passport_optional', 'car_optional', 'car_nocascade',
            'group_owner', 'profile_pk', 'cascade_mix', 'passport_req_cascade', 'car_explicit_pk', 'student_sub')


def spec_variant(name):
    spec = copy.deepcopy(BASE_SPEC)

    def attr(ent, an):
        for (n, attrs, opts) in spec:
            if n == ent:
                for i, (x, k, o) in enumerate(attrs):
                    if x == an:
                        return attrs, i
        raise KeyError((ent, an))

    if name == 'passport_cascade':
        attrs, i = attr('Person', 'passport')
        attrs[i][2]['cascade_delete'] = True
    elif name == 'group_cascade':
        attrs, i = attr('Group', 'members')
        attrs[i][2]['cascade_delete'] = True
    elif name == 'passport_req_cascade':
        # the owner side is Required and cascades (Person.passport = Required(Passport, cascade_delete=True)),
        # the other side is optional: the foreign key column lives in Person
        attrs, i = attr('Person', 'passport')
        attrs[i] = ('passport', 'req', dict(attrs[i][2], cascade_delete=True))
        attrs, i = attr('Passport', 'person')
        attrs[i] = ('person', 'opt', attrs[i][2])
    elif name == 'car_explicit_pk':
        # members of a cascading collection with a primary key the program chooses: a car created in the session
        # is in the identity map under its key before it is inserted (and has to be there again after a refused
        # delete of its owner took it away)
        attrs, i = attr('Car', 'id')
        attrs[i] = ('id', 'pk', {'type': 'int'})
    elif name == 'student_sub':
        # single-table inheritance: Student(Person) with attributes and a composite key of its own whose first part is
        # inherited; a Person reference may point to a Student, base-class lookups have to hand out the subclass
        # instance (class refinement of an object first seen as a bare Person reference)
        i = [n for (n, a, o) in spec].index('Person')
        spec.insert(i + 1, ('Student', [
            ('gpa', 'opt', {'type': 'float'}),
            ('level', 'opt', {'type': 'int'}),
        ], {'base': 'Person', 'composite_keys': [('name', 'level')]}))
    elif name == 'cascade_mix':
        # a cascade that runs through several levels (group -> members -> passport) and can be refused late
        # (a member that owns a car): everything the cascade already deleted has to come back
        attrs, i = attr('Group', 'members')
        attrs[i][2]['cascade_delete'] = True
        attrs, i = attr('Person', 'passport')
        attrs[i][2]['cascade_delete'] = True
        attrs, i = attr('Person', 'cars')
        attrs[i][2]['cascade_delete'] = False
    elif name == 'passport_optional':
        attrs, i = attr('Passport', 'person')
        attrs[i] = ('person', 'opt', attrs[i][2])
    elif name == 'car_optional':
        attrs, i = attr('Car', 'owner')
        attrs[i] = ('owner', 'opt', attrs[i][2])
    elif name == 'car_nocascade':
        attrs, i = attr('Person', 'cars')
        attrs[i][2]['cascade_delete'] = False
    elif name == 'group_owner':
        # a collection declared *before* a one-to-one attribute that can refuse: Group(members=[...], owner=p)
        # links the members first and is refused afterwards when p already owns a group
        for (n, attrs, opts) in spec:
            if n == 'Group':
                attrs.append(('owner', 'req', {'rel': 'Person', 'reverse': 'owns'}))
            if n == 'Person':
                attrs.append(('owns', 'opt', {'rel': 'Group', 'reverse': 'owner'}))
    elif name == 'profile_pk':
        # an entity whose primary key is a reference (Profile.person = PrimaryKey(Person)) and that other rows refer
        # to (Car.sponsor): saving a Car can require its Profile first, which requires its Person first
        for (n, attrs, opts) in spec:
            if n == 'Person':
                attrs.append(('profile', 'opt', {'rel': 'Profile', 'reverse': 'person'}))
            if n == 'Car':
                attrs.append(('sponsor', 'opt', {'rel': 'Profile', 'reverse': 'sponsored'}))
        spec.insert(len(spec) - 1, ('Profile', [
            ('person', 'pk', {'rel': 'Person', 'reverse': 'profile'}),
            ('bio', 'opt', {'type': 'str'}),
            ('sponsored', 'set', {'rel': 'Car', 'reverse': 'sponsor'}),
        ], {}))
    elif name != 'base':
        raise ValueError(name)
    return spec


POOLS = {
    ('Person', 'name'): ['ann', 'bob', 'cy'],
    ('Person', 'email'): [None, 'e1', 'e2', 'e3'],
    ('Person', 'age'): [None, 0, 1, 2],
    ('Person', 'score'): [None, 0.5, 1.5],
    ('Person', 'nick'): ['', 'n1', 'n2'],
    ('Passport', 'code'): ['P1', 'P2', 'P3', 'P4'],
    ('Passport', 'country'): ['', 'xx', 'yy'],
    ('Group', 'dept'): [1, 2],
    ('Group', 'num'): [1, 2],
    ('Group', 'title'): ['', 't1', 't2'],
    ('Course', 'name'): ['math', 'art', 'bio'],
    ('Course', 'credits'): [1, 2, 3],
    ('Course', 'meta'): [{}, {'k': 1}, {'k': 2, 'l': [1]}, {'l': []}],
    ('Car', 'id'): [1, 2, 3, 4, 5, 6],
    ('Car', 'plate'): ['pl1', 'pl2', 'pl3', 'pl4'],
    ('Car', 'seats'): [None, 2, 4],
    ('Log', 'msg'): ['l1', 'l2', 'l3'],
    ('Profile', 'bio'): ['', 'b1', 'b2'],
    ('Student', 'gpa'): [None, 3.5, 4.0],
    ('Student', 'level'): [None, 1, 2],
}


BASES = {'Student': 'Person'}


def pool(ent, attr):
    while (ent, attr) not in POOLS and ent in BASES:
        ent = BASES[ent]        # an inherited attribute
    p = POOLS[(ent, attr)]
    if any(isinstance(v, (dict, list)) for v in p):
        return copy.deepcopy(p)       # mutable values: every use gets its own
    return p
