"""Process-wide state of Pony: reset before every in-process run, and the
deterministic entity-instance hash.

Everything in here reaches Pony from the outside (module globals and class
attributes); nothing in /repo is modified.
"""
import itertools
import threading
import weakref

from . import simdb, simsched
from .prng import splitmix64

_installed = False
_hash_seed = 0
_hash_table = {}
_hash_counter = itertools.count(1)


def _entity_hash(obj):
    """Deterministic replacement for the address-based default hash of entity
    instances: a number drawn at first use, mixed with the run seed.  Set
    iteration order over entity instances thereby becomes a function of the run
    seed instead of the heap layout (which differs between a batch and a replay)."""
    k = id(obj)
    ent = _hash_table.get(k)
    if ent is not None:
        return ent[0]
    h = splitmix64(next(_hash_counter) ^ _hash_seed) & 0x3FFFFFFFFFFFFFFF
    try:
        ref = weakref.ref(obj, lambda r, k=k: _hash_table.pop(k, None))
    except TypeError:
        ref = None
    _hash_table[k] = (h, ref)
    return h


def install():
    global _installed
    if _installed:
        return
    import pony.orm.core as core
    core.Entity.__hash__ = _entity_hash
    _capture_options()
    _installed = True


def clear_query_caches(between_runs=False):
    """Drop every process-wide translation cache (always legal: a cache may be cold).  utils.codeobjects is not a
    cache: it pins every code object Pony has keyed something by, so that id(code) stays unique; it is emptied
    only between runs, together with everything that is keyed by those ids."""
    import pony.orm.core as core
    import pony.orm.asttranslation as asttranslation
    import pony.orm.decompiling as decompiling
    import pony.orm.ormtypes as ormtypes
    import pony.utils.utils as utils
    core.adapted_sql_cache.clear()
    core.string2ast_cache.clear()
    asttranslation.extractors_cache.clear()
    decompiling.ast_cache.clear()
    ormtypes.raw_sql_cache.clear()
    if between_runs:
        utils.codeobjects.clear()
    utils.lambda_args_cache.clear()


def reset_thread_local():
    import pony.orm.core as core
    import pony.orm.sqltranslation as sqltranslation
    l = core.local
    l.debug = False
    l.show_values = None
    l.debug_stack = []
    l.db2cache = {}
    l.db_context_counter = 0
    l.db_session = None
    l.prefetch_context_stack = []
    l.current_user = None
    l.perms_context = None
    l.user_groups_cache = {}
    l.user_roles_cache.clear()
    sqltranslation.local.translators = []
    try:
        import pony.orm.dbproviders.sqlite as psq
        psq.local_exceptions.exc_info = None
        psq.local_exceptions.keep_traceback = False
    except Exception:
        pass


def reset(seed):
    global _hash_seed, _hash_counter
    import pony.orm.core as core
    import pony.orm.sqltranslation as sqltranslation
    import pony.options as options
    clear_query_caches(between_runs=True)
    core.db_id_counter = itertools.count(1)
    core.num_counter = itertools.count()
    core.attr_id_counter = itertools.count(1)
    core.entity_id_counter = itertools.count(1)
    core.new_instance_id_counter = itertools.count(1)
    sqltranslation.translator_counter = itertools.count(1)
    reset_thread_local()
    for k, v in _DEFAULT_OPTIONS.items():
        setattr(options, k, v)
    _hash_table.clear()
    _hash_counter = itertools.count(1)
    _hash_seed = splitmix64(int(seed) & ((1 << 64) - 1))
    simsched.SimLock._counter = 0
    import pony.orm.asttranslation as asttranslation
    if hasattr(asttranslation, 'extractors_lock'):
        # (the lock repair f348fbd added around pre-translation: a module-level lock, re-created per run as a
        # simulated lock so that a thread parked inside it does not block the others for real)
        asttranslation.extractors_lock = simsched.SimLock()
    simsched.set_scheduler(None)
    simdb.ctx.reset()
    _databases[:] = []


_DEFAULT_OPTIONS = {}


def _capture_options():
    import pony.options as options
    for k in dir(options):
        if k.isupper():
            _DEFAULT_OPTIONS[k] = getattr(options, k)


_databases = []


def register_db(db):
    _databases.append(db)


def cleanup():
    """After a run: close every real connection that is still open, drop thread-local leftovers."""
    for conn in simdb.ctx.conns:
        try:
            conn._real.close()
        except Exception:
            pass
    s = simsched.current_scheduler()
    if s is not None:
        simsched.set_scheduler(None)
    reset_thread_local()
    _databases[:] = []
    extra = [t for t in threading.enumerate() if t is not threading.main_thread() and t.is_alive()]
    if extra:
        raise RuntimeError('threads left alive after run: %r' % [t.name for t in extra])
