"""Dispatcher: a pool of worker processes executing simulated runs."""
import json
import os
import queue
import shutil
import subprocess
import sys
import threading

from . import env


class Worker(object):
    def __init__(self, index, tag, hashseed='0', use_setarch=True, run_timeout=30):
        self.index = index
        self.tag = tag
        self.hashseed = hashseed
        self.use_setarch = use_setarch
        self.run_timeout = run_timeout
        self.scratch = os.path.join(env.scratch_root(), 'ponysim-%s-w%02d' % (tag, index))
        self.errlog = self.scratch + '.stderr'
        self.proc = None
        self.errf = None
        self.runs = 0
        self.restarts = 0
        self._start()

    def _start(self):
        e = env.worker_env(self.hashseed)
        e['PONYSIM_WORKER_SCRATCH'] = self.scratch
        e['PONYSIM_RUN_TIMEOUT'] = str(self.run_timeout)
        cmd = (env.setarch_prefix() if self.use_setarch else []) + [sys.executable, '-m', 'ponysim.worker']
        self.errf = open(self.errlog, 'ab')
        self.proc = subprocess.Popen(cmd, stdin=subprocess.PIPE, stdout=subprocess.PIPE, stderr=self.errf,
                                     env=e, cwd=env.VERIF_DIR, text=True, bufsize=1)
        self.ready = False
        self.runs = 0

    def wait_ready(self):
        if self.ready:
            return
        line = self.proc.stdout.readline()
        if not line or 'hello' not in line:
            raise RuntimeError('worker %d failed to start: %r; stderr tail: %s'
                               % (self.index, line, self.stderr_tail()))
        self.ready = True

    def _kill(self):
        try:
            self.proc.kill()
        except Exception:
            pass
        try:
            self.proc.wait(timeout=10)
        except Exception:
            pass
        for f in (self.proc.stdin, self.proc.stdout):
            try:
                f.close()
            except Exception:
                pass
        try:
            self.errf.close()
        except Exception:
            pass

    def restart(self):
        self._kill()
        self.restarts += 1
        self._start()
        self.wait_ready()

    def run(self, case):
        self.wait_ready()
        try:
            self.proc.stdin.write(json.dumps(case, sort_keys=True) + '\n')
            self.proc.stdin.flush()
            line = self.proc.stdout.readline()
        except (BrokenPipeError, OSError):
            line = ''
        if not line:
            tail = self.stderr_tail()
            self.restart()
            return {'harness_error': 'worker died or timed out while running the case; stderr tail: ' + tail}
        res = json.loads(line)
        self.runs += 1
        if res.get('dirty') or self.runs >= 5000:
            self.restart()
        return res

    def stderr_tail(self, n=3000):
        try:
            self.errf.flush()
            with open(self.errlog, 'rb') as f:
                f.seek(0, 2)
                size = f.tell()
                f.seek(max(0, size - n))
                return f.read().decode('utf-8', 'replace')
        except Exception:
            return ''

    def close(self):
        try:
            self.proc.stdin.write(json.dumps({'quit': True}) + '\n')
            self.proc.stdin.flush()
            self.proc.stdin.close()
        except Exception:
            pass
        try:
            self.proc.wait(timeout=10)
        except Exception:
            pass
        self._kill()
        shutil.rmtree(self.scratch, ignore_errors=True)
        try:
            os.unlink(self.errlog)
        except OSError:
            pass


class Pool(object):
    def __init__(self, workers=None, hashseed='0', use_setarch=True, run_timeout=30, tag=None):
        if workers is None:
            workers = int(os.environ.get('VERIF_WORKERS', '0')) or min(16, os.cpu_count() or 4)
        self.tag = tag or ('%d' % os.getpid())
        self.workers = [Worker(i, self.tag, hashseed, use_setarch, run_timeout) for i in range(workers)]
        for w in self.workers:
            w.wait_ready()

    def __enter__(self):
        return self

    def __exit__(self, *a):
        self.close()

    def close(self):
        for w in self.workers:
            w.close()
        self.workers = []

    def run_one(self, case, worker=0):
        return self.workers[worker % len(self.workers)].run(case)

    def imap_unordered(self, cases):
        """cases: iterator of case dicts.  Yields (case, result) as they complete."""
        it = iter(cases)
        out = queue.Queue(maxsize=4096)
        lock = threading.Lock()
        n_threads = len(self.workers)

        def pump(w):
            try:
                while True:
                    with lock:
                        try:
                            case = next(it)
                        except StopIteration:
                            break
                        except BaseException as e:
                            out.put(('error', None, e))
                            break
                    try:
                        res = w.run(case)
                    except BaseException as e:
                        res = {'harness_error': 'worker protocol failure: %r; stderr tail: %s'
                                                % (e, w.stderr_tail())}
                        out.put(('ok', case, res))
                        break
                    out.put(('ok', case, res))
            finally:
                out.put(('done', None, None))

        threads = [threading.Thread(target=pump, args=(w,), daemon=True) for w in self.workers]
        for t in threads:
            t.start()
        done = 0
        while done < n_threads:
            kind, case, res = out.get()
            if kind == 'done':
                done += 1
            elif kind == 'error':
                raise res
            else:
                yield case, res

    def map(self, cases):
        """Run all cases; return results in input order."""
        cases = list(cases)
        for i, c in enumerate(cases):
            c['_i'] = i
        results = [None] * len(cases)
        for case, res in self.imap_unordered(cases):
            results[case['_i']] = res
        for c in cases:
            c.pop('_i', None)
        return results


def sweep_stale():
    """Remove scratch directories left behind by dead batches."""
    root = env.scratch_root()
    try:
        names = os.listdir(root)
    except OSError:
        return
    for name in names:
        if not name.startswith('ponysim-'):
            continue
        parts = name.split('-')
        try:
            pid = int(parts[1].split('.')[0])
        except (IndexError, ValueError):
            continue
        try:
            os.kill(pid, 0)
            alive = True
        except ProcessLookupError:
            alive = False
        except PermissionError:
            alive = True
        if not alive:
            p = os.path.join(root, name)
            if os.path.isdir(p):
                shutil.rmtree(p, ignore_errors=True)
            else:
                try:
                    os.unlink(p)
                except OSError:
                    pass
