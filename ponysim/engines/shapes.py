"""Session shapes x failure points (C19 part A).

One case = one session shape executed on a fresh database with an optional list
of injected DB-API faults addressed by the call index inside the main phase.
After the shape has ended - however it ended - the end-state oracle of DESIGN
section 5/C19 is evaluated at the seams, followed by the liveness probe.
"""
import os
import threading

from pony import orm
from pony.orm import core
from pony.orm import db_session, select, delete, commit, rollback, flush

from .. import simdb, simsched, procstate
from ..harness import hsh

SCHEMA_SRC = '''
class A(db.Entity):
    name = Required(str, unique=True)
    val = Required(int, default=0)
    bs = Set('B')

class B(db.Entity):
    a = Required(A)
    tag = Optional(str)

class C(db.Entity):
    x = Required(int)
'''


class Env(object):
    pass


_reconnecting_cls = []


def reconnecting_provider():
    """Stand-in for the providers that reconnect (PostgreSQL, MySQL, Oracle - none can run here): the SQLite
    provider with should_reconnect() true for the injected 'connection lost' error, so that the
    provider-neutral reconnect logic in Database._exec_sql / SessionCache.reconnect is exercised.  A stub."""
    if not _reconnecting_cls:
        import pony.orm.dbproviders.sqlite as psq

        class ReconnectingSQLiteProvider(psq.SQLiteProvider):
            def should_reconnect(provider, exc):
                return getattr(exc, 'ponysim_injected', None) == 'connlost'
        _reconnecting_cls.append(ReconnectingSQLiteProvider)
    return _reconnecting_cls[0]


def build(scratch, dbkind, name='main', reconnecting=False):
    db = orm.Database()
    ns = {'db': db, 'Required': orm.Required, 'Optional': orm.Optional, 'Set': orm.Set,
          'PrimaryKey': orm.PrimaryKey}
    exec(SCHEMA_SRC, ns)
    if dbkind == 'file':
        path = os.path.join(scratch, name + '.sqlite')
        db.bind(reconnecting_provider() if reconnecting else 'sqlite', path, create_db=True, timeout=0)
    elif dbkind == 'memory':
        path = ':memory:'
        db.bind('sqlite', ':memory:', timeout=0)
    elif dbkind == 'shared':
        path = ':sharedmemory:'
        db.bind('sqlite', ':sharedmemory:', timeout=0)
    else:
        raise ValueError(dbkind)
    db.generate_mapping(create_tables=True)
    procstate.register_db(db)
    return db, ns['A'], ns['B'], ns['C'], path


def populate(E):
    with db_session:
        a1 = E.A(name='a1', val=1)
        a2 = E.A(name='a2', val=2)
        E.A(name='a3', val=3)
        E.B(a=a1, tag='x')
        E.B(a=a1, tag='y')
        E.B(a=a2, tag='x')
        E.C(x=1)


# --------------------------------------------------------------------------
# shapes

def s_ro(E):
    with db_session:
        lst = select(a for a in E.A if a.val > 0)[:]
        n = E.B.select().count()
        return len(lst) + n


def _rw(E):
    a = E.A[1]
    a.val = a.val + 1
    E.B(a=a, tag='n')
    n = select(b for b in E.B if b.a == a).count()
    return n


def s_opt_write(E):
    with db_session:
        return _rw(E)


def s_immediate(E):
    with db_session(immediate=True):
        return _rw(E)


def s_serializable(E):
    with db_session(serializable=True):
        return _rw(E)


def s_nonopt(E):
    with db_session(optimistic=False):
        return _rw(E)


def s_strict(E):
    with db_session(strict=True):
        return _rw(E)


def s_decorator(E):
    @db_session
    def f():
        return _rw(E)
    return f()


def s_ddl_create(E):
    E.db.create_tables()


def s_ddl_drop(E):
    E.db.drop_table('C', with_all_data=True)


def s_ddl_user(E):
    @db_session(ddl=True)
    def f():
        E.db.execute('CREATE TABLE IF NOT EXISTS extra (id INTEGER PRIMARY KEY)')
        commit()
        E.db.execute('DROP TABLE extra')
    f()


def s_nested(E):
    with db_session:
        E.A[1].val = 10
        with db_session:
            E.B(a=E.A[2], tag='in')
        flush()
        E.A[2].val = 20


def s_commit_more(E):
    with db_session:
        E.A[1].val = 11
        commit()
        E.A[2].val = 12
        E.B(a=E.A[2], tag='m')


def s_rollback_more(E):
    with db_session:
        E.A[1].val = 11
        flush()
        rollback()
        a = E.A[2]
        a.val = 12


def _gen(E):
    @db_session
    def gen():
        a = E.A[1]
        yield a.val
        a2 = E.A[2]
        a2.val = 5
        commit()
        yield 2
        yield E.B.select().count()
    return gen()


def s_generator(E):
    out = []
    for x in _gen(E):
        out.append(x)
    return out


def s_gen_abandon(E):
    g = _gen(E)
    next(g)
    next(g)
    g.close()


def _gen_cleanup(E):
    @db_session
    def gen():
        a = E.A[1]
        try:
            yield a.val
            yield 2
        finally:
            # the generator's own clean-up writes: when the consumer closes it early (GeneratorExit) or an
            # exception that is not an Exception is thrown in, the session ends while it holds a transaction
            a.val = 77
            flush()
    return gen()


def s_gen_close_in_tx(E):
    g = _gen_cleanup(E)
    next(g)
    g.close()


def s_gen_throw_base(E):
    g = _gen_cleanup(E)
    next(g)
    try:
        g.throw(KeyboardInterrupt())
    except KeyboardInterrupt:
        pass


def s_gen_throw(E):
    g = _gen(E)
    next(g)
    try:
        g.throw(ValueError('thrown'))
    except ValueError:
        pass


def s_two_db(E):
    with db_session:
        E.A[1].val = 3
        E.A2(name='second', val=1)


def s_two_db_exc(E):
    # both databases have an open write transaction when the body fails: both have to be rolled back and
    # released, whatever happens to the other one
    try:
        with db_session:
            E.A[1].val = 4
            E.A2(name='second', val=2)
            flush()
            raise ValueError('body')
    except ValueError:
        pass


def s_two_db_rollback(E):
    with db_session:
        E.A2(name='third', val=3)
        E.A[1].val = 5
        flush()
        rollback()
        E.A[1].val = 6


def s_flush_error(E):
    with db_session:
        E.A(name='a1', val=7)


def s_body_exc(E):
    with db_session:
        E.A[1].val = 99
        flush()
        raise ValueError('body')


def s_allowed_exc(E):
    with db_session(allowed_exceptions=[ValueError]):
        E.A[1].val = 98
        raise ValueError('allowed')


def s_raw(E):
    with db_session:
        E.db.execute("UPDATE A SET val = val + 1 WHERE id = 1")
        rows = E.db.select("id, val FROM A")
        return len(rows)


def s_write_then_read(E):
    # pending changes are flushed by the statement that follows them: a raw statement, a collection load, a query
    with db_session:
        a = E.A[1]
        a2 = E.A[2]
        a.val = 21
        rows = E.db.select("id, val FROM A")
        a2.val = 22
        n = len(a.bs)
        a.val = 23
        m = select(b for b in E.B if b.a == a2).count()
        return len(rows) + n + m


def s_get_conn(E):
    with db_session:
        con = E.db.get_connection()
        cur = con.cursor()
        cur.execute('select 1')
        return cur.fetchone()[0]


def s_for_update(E):
    with db_session:
        a = E.A.get_for_update(id=1)
        a.val += 1


def s_retry(E):
    state = {'n': 0}

    @db_session(retry=2)
    def f():
        state['n'] += 1
        E.A[1].val = 50 + state['n']
        flush()
        if state['n'] == 1:
            raise core.TransactionError('again')
    f()


def s_disconnect_between(E):
    with db_session:
        E.A[1].val = 7
    E.db.disconnect()
    with db_session:
        return E.A[1].val


def s_bulk_delete(E):
    with db_session:
        delete(b for b in E.B if b.tag == 'x')
        E.B.select(lambda b: b.tag == 'y').delete(bulk=True)


def s_collection(E):
    with db_session:
        a = E.A[1]
        n = len(a.bs)
        a2 = E.A[2]
        for b in list(a.bs):
            b.a = a2
        return n


def s_delete_cascade(E):
    with db_session:
        E.A[1].delete()


def s_manual_rollback_exit(E):
    with db_session:
        E.A[1].val = 5
        flush()
        E.db.rollback()


def s_db_commit(E):
    with db_session:
        E.A[1].val = 5
        E.db.commit()
        E.A[3].val = 6
        E.db.flush()


SHAPES = {
    'ro': s_ro, 'opt_write': s_opt_write, 'immediate': s_immediate, 'serializable': s_serializable,
    'nonopt': s_nonopt, 'strict': s_strict, 'decorator': s_decorator,
    'ddl_create': s_ddl_create, 'ddl_drop': s_ddl_drop, 'ddl_user': s_ddl_user,
    'nested': s_nested, 'commit_more': s_commit_more, 'rollback_more': s_rollback_more,
    'generator': s_generator, 'gen_abandon': s_gen_abandon, 'gen_throw': s_gen_throw,
    'gen_close_in_tx': s_gen_close_in_tx, 'gen_throw_base': s_gen_throw_base,
    'two_db': s_two_db, 'two_db_exc': s_two_db_exc, 'two_db_rollback': s_two_db_rollback, 'flush_error': s_flush_error, 'body_exc': s_body_exc, 'allowed_exc': s_allowed_exc,
    'raw': s_raw, 'write_then_read': s_write_then_read, 'get_conn': s_get_conn, 'for_update': s_for_update, 'retry': s_retry,
    'disconnect_between': s_disconnect_between, 'bulk_delete': s_bulk_delete, 'collection': s_collection,
    'delete_cascade': s_delete_cascade, 'manual_rollback_exit': s_manual_rollback_exit, 'db_commit': s_db_commit,
}

SHAPE_NAMES = sorted(SHAPES)


def legal_faults(ev, tier='quick', dbkind='file'):
    """Fault kinds that a real SQLite deployment can produce at this call."""
    kind = ev['kind']
    if dbkind != 'file' and kind in ('rollback', 'close', 'connect'):
        # an in-memory database has no file: ROLLBACK / close / open cannot meet I/O errors
        return []
    sql = (ev.get('sql') or '').upper()
    out = []
    if kind == 'connect':
        out = ['cantopen']
    elif kind == 'cursor':
        out = ['progerr']
    elif kind in ('execute', 'executemany', 'con.execute'):
        if sql.startswith('PRAGMA'):
            out = []
        elif sql.startswith('BEGIN'):
            out = ['busy', 'ioerr']
        elif sql.startswith('SELECT'):
            out = ['busy', 'ioerr']
        else:
            out = ['busy', 'ioerr', 'ioerr_rb', 'full']
    elif kind in ('fetchone', 'fetchmany', 'fetchall'):
        out = ['ioerr']
    elif kind == 'commit':
        out = ['busy', 'ioerr', 'full']
    elif kind == 'rollback':
        out = ['ioerr']
    elif kind == 'close':
        out = ['ioerr']
    if tier == 'thorough':
        out = out + ['kbint', 'memerr']
    return out


# --------------------------------------------------------------------------

def _exc_name(e):
    return type(e).__name__ if e is not None else None


def end_state_checks(E, viol, dbs):
    """The C19 end-state oracle, evaluated at the seams (DESIGN section 5, C19)."""
    c = simdb.ctx
    if core.local.db2cache:
        viol('db2cache-not-empty', 'core.local.db2cache still holds %d cache(s) after the session ended'
             % len(core.local.db2cache))
    if core.local.db_session is not None or core.local.db_context_counter:
        viol('db_session-state-leaked', 'local.db_session=%r counter=%r'
             % (core.local.db_session, core.local.db_context_counter))
    pool_cons = []
    for db in dbs:
        prov = db.provider
        for lname in ('transaction_lock', 'pre_transaction_lock'):
            lk = getattr(prov, lname)
            if lk.locked():
                viol('lock-held-after-session', '%s of the SQLite provider is still held by %s'
                     % (lname, lk.owner_name()))
            if getattr(lk, 'double_release', 0):
                viol('lock-double-release', '%s released while not held' % lname)
        pool_cons.append(prov.pool.con)
    for conn in c.conns:
        if conn.close_calls > 1:
            viol('connection-closed-twice', 'connection #%d closed %d times' % (conn.cid, conn.close_calls))
        if not conn.closed:
            if not any(conn is pc for pc in pool_cons):
                viol('connection-leaked', 'connection #%d is open but is not the pool connection' % conn.cid)
                continue
            real = conn._real
            try:
                if real.in_transaction:
                    viol('pooled-connection-in-transaction', 'pooled connection #%d has an open transaction'
                         % conn.cid)
                    real.rollback()
                fk = real.execute('PRAGMA foreign_keys').fetchone()[0]
                if not fk:
                    # not part of C19's statement (later sessions do not block or fail): recorded as an
                    # observation only, see DESIGN section 7
                    simdb.ctx.observations.append('pooled-connection-fk-off')
                real.execute('select 1').fetchone()
            except Exception as e:
                viol('pooled-connection-unusable', 'pooled connection #%d: %s: %s'
                     % (conn.cid, type(e).__name__, e))
    for pc in pool_cons:
        if pc is not None and getattr(pc, 'closed', False):
            viol('pool-holds-closed-connection', 'pool.con is a closed connection (#%d)' % pc.cid)
    if c.closed_use:
        u = c.closed_use[0]
        viol('statement-on-closed-connection', 'call %s %r on closed connection #%d'
             % (u['kind'], u.get('sql'), u['conn']))


def _probe_sessions(E, tag):
    with db_session:
        lst = select(a for a in E.A if a.val > -10 ** 9)[:]
    with db_session:
        a = E.A.select().first()
        if a is not None:
            a.val = a.val + 1000
        E.B(a=a, tag=tag) if a is not None else None
    return len(lst)


def liveness_probe(E, viol, second_thread=True):
    simdb.ctx.phase = 'probe'
    g0 = simdb.ctx.g
    try:
        _probe_sessions(E, 'p1')
    except simsched.SimDeadlock as e:
        viol('later-session-blocked', 'same-thread session after the shape would block forever: %s' % e)
    except BaseException as e:
        viol('later-session-failed', 'same-thread session after the shape failed: %s: %s'
             % (type(e).__name__, str(e)[:200]))
    if second_thread:
        box = {}

        def run():
            try:
                _probe_sessions(E, 'p2')
            except BaseException as e:
                box['e'] = e
            finally:
                try:
                    E.db.disconnect()
                except BaseException:
                    pass
        t = threading.Thread(target=run, name='probe2')
        t.start()
        t.join(20)
        if t.is_alive():
            viol('later-session-blocked', 'second-thread session hangs')
        elif 'e' in box:
            e = box['e']
            if isinstance(e, simsched.SimDeadlock):
                viol('later-session-blocked', 'second-thread session would block forever: %s' % e)
            else:
                viol('later-session-failed', 'second-thread session failed: %s: %s'
                     % (type(e).__name__, str(e)[:200]))
    calls = simdb.ctx.g - g0
    if calls > 200:
        viol('liveness-budget-exceeded', 'probe needed %d DB calls (> 200)' % calls)


def run_case(case, scratch):
    c = simdb.ctx
    shape = case['shape']
    dbkind = case.get('dbkind', 'file')
    pooled = case.get('pooled', True)
    tier = case.get('tier', 'quick')
    E = Env()
    E.scratch = scratch
    c.phase = 'setup'
    reconnecting = bool(case.get('reconnecting'))
    E.db, E.A, E.B, E.C, E.path = build(scratch, dbkind, reconnecting=reconnecting)
    dbs = [E.db]
    if shape.startswith('two_db'):
        E.db2, E.A2, E.B2, E.C2, E.path2 = build(scratch, dbkind, 'second')
        dbs.append(E.db2)
    populate(E)
    if not pooled:
        for db in dbs:
            db.disconnect()
    initial_data = None
    if dbkind == 'file':
        con0 = simdb.raw_connect(E.path)
        try:
            initial_data = [[list(r) for r in con0.execute('select id, name, val from A order by id').fetchall()],
                            [list(r) for r in con0.execute('select id, a, tag from B order by id').fetchall()]]
        finally:
            con0.close()
    # ---- main phase
    n_setup = len(c.events)
    c.g = 0
    c.thread_k = {}
    c.phase = 'main'
    for g, kind in case.get('faults', ()):
        c.gfaults[int(g)] = kind
    body_exc = None
    try:
        SHAPES[shape](E)
    except BaseException as e:
        body_exc = e
    c.phase = 'post'
    main_events = c.events[n_setup:]
    violations = []
    fault_desc = '+'.join('%s:%s' % (f[3], f[4]) for f in c.fired) or 'none'

    def viol(sub, detail):
        key = 'C19|%s|shape=%s|db=%s|fault=%s%s' % (sub, shape, dbkind, fault_desc, '|reconnecting' if reconnecting else '')
        if not any(v['key'] == key for v in violations):
            violations.append({'prop': 'C19', 'key': key,
                               'detail': '%s (body ended with %s; faults fired: %s)'
                                         % (detail, _exc_name(body_exc), c.fired)})

    if isinstance(body_exc, simsched.SimDeadlock):
        viol('session-blocked-on-own-lock', str(body_exc))
    end_state_checks(E, viol, dbs)
    data = None
    if dbkind == 'file':
        # committed data right after the shape (before the probe sessions add theirs)
        con = simdb.raw_connect(E.path)
        try:
            data = [con.execute('select id, name, val from A order by id').fetchall(),
                    con.execute('select id, a, tag from B order by id').fetchall()]
            data = [[list(r) for r in t] for t in data]
        except Exception:
            data = None
        finally:
            con.close()
        exp_all = case.get('expect_all')
        exp_none = initial_data
        if reconnecting and c.fired and exp_all is not None and exp_none is not None and data is not None:
            # C17 through the provider-neutral reconnect logic: a connection lost in the middle of a session
            # must not let part of the session commit
            if data != exp_all and data != exp_none:
                violations.append({'prop': 'C17', 'key': 'C17|partial-commit-after-reconnect|shape=%s|fault=%s' % (shape, fault_desc),
                                   'detail': 'connection lost during the session (stand-in reconnecting provider): the database '
                                             'holds %r, which is neither the state before the session %r nor the state of the '
                                             'complete session %r (body ended with %s)' % (data, exp_none, exp_all, _exc_name(body_exc))})
    liveness_probe(E, viol, second_thread=(dbkind != 'memory'))
    for db in dbs:
        try:
            db.disconnect()
        except BaseException:
            pass
    calls = [{'g': ev['g'], 'kind': ev['kind'], 'sql': ev.get('sql'), 'legal': legal_faults(ev, tier, dbkind)}
             for ev in main_events if ev['phase'] == 'main']
    if reconnecting:
        # the connection can be lost at any statement (that is what the reconnecting providers handle)
        for cl in calls:
            if cl['kind'] in ('execute', 'executemany') and not (cl['sql'] or '').upper().startswith('PRAGMA'):
                cl['legal'] = ['connlost']
            elif cl['kind'] == 'connect':
                cl['legal'] = ['cantopen']
            else:
                cl['legal'] = []
    digest = hsh([[ev['g'], ev['t'], ev['c'], ev['kind'], ev.get('sql'), ev.get('params'), ev.get('rows'),
                   ev.get('fault'), ev.get('exc')] for ev in c.events] + [_exc_name(body_exc)])
    fired_sig = [[f[0], f[3], f[4]] for f in c.fired]
    res = {
        'violations': violations,
        'calls': calls,
        'fired': c.fired,
        'unfired': sorted(c.gfaults),
        'body_exc': _exc_name(body_exc),
        'body_exc_msg': str(body_exc)[:200] if body_exc is not None else None,
        'data': data,
        'digest': digest,
        'sig': hsh([shape, dbkind, pooled, fired_sig] + (['reconnecting'] if reconnecting else [])),
        'nontrivial': bool(c.fired),
        'probes': {
            'fault_during_open_transaction': int(any(f for f in c.fired) and any(
                (ev.get('sql') or '').startswith('BEGIN') for ev in main_events)),
            'error_path_second_fault': int(len(c.fired) >= 2),
            'body_raised': int(body_exc is not None),
            'connection_lost_inside_transaction': int(reconnecting and any(f[4] == 'connlost' for f in c.fired) and any(
                ev.get('fault') == 'connlost' and ev.get('in_tx') for ev in main_events)),
            'session_survived_connection_loss': int(reconnecting and bool(c.fired) and body_exc is None),
            'obs_fk_off_on_pooled_connection': int('pooled-connection-fk-off' in c.observations),
        },
        'sample': {'shape': shape, 'dbkind': dbkind, 'pooled': pooled, 'faults': case.get('faults', []),
                   'fired': fired_sig, 'body_exc': _exc_name(body_exc),
                   'main_calls': ['%s %s' % (x['kind'], (x['sql'] or '')[:50]) for x in calls][:40]},
    }
    return res


def shrink(case):
    faults = case.get('faults', [])
    for i in range(len(faults)):
        c = dict(case)
        c['faults'] = faults[:i] + faults[i + 1:]
        yield c
