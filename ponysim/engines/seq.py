"""SEQ engine: one thread, a history of sessions checked against the reference model.

case = {'engine': 'seq', 'seed': int, 'variant': str, 'knobs': {...},
        'sessions': [{'opts': {...}, 'ops': [[op, a, b, c], ...], 'end': 'exit'|'raise'|'rollback'}],
        'flush_policy': 'never'|'always'|'seeded', 'faults': [[g, kind]], 'fault_op': [sess, op, k, kind]}

Violations carry the property they belong to (C09 C10 C11 C12 C13 C14 C15 C16 C23);
each check driver reports only its own.
"""
import json
import os
import traceback

from pony import orm
from pony.orm import core
from pony.orm import db_session, select, commit, rollback, flush

from .. import simdb, procstate, sessmodel, seqschema, whitebox
from ..harness import hsh
from ..sessmodel import Refuse
from . import seq_hooks

ENT_ORDER = ('Person', 'Passport', 'Group', 'Course', 'Car')


class Marker(Exception):
    """raised by the harness inside a session to end it with an error"""


class Poisoned(Exception):
    """flush/commit failed: the session is abandoned"""


INTEGRITY = (core.TransactionIntegrityError, core.UnresolvableCyclicDependency, core.IntegrityError,
             core.ConstraintError)


def mix(*xs):
    h = 1469598103934665603
    for x in xs:
        h ^= (int(x) + 0x9E3779B97F4A7C15) & 0xFFFFFFFFFFFFFFFF
        h = (h * 1099511628211) & 0xFFFFFFFFFFFFFFFF
        h ^= h >> 29
    return h


class SeqRun(seq_hooks.HooksMixin, object):
    def __init__(self, case, scratch):
        self.case = case
        self.scratch = scratch
        self.knobs = case.get('knobs') or {}
        self.violations = []
        self.probes = {}
        self.log = []
        self.states = set()
        self.variant = case.get('variant', 'base')
        self.schema = sessmodel.Schema(seqschema.spec_variant(self.variant))
        self.mid_counter = 0
        self.committed = sessmodel.View(self.schema)
        self.view = None
        self.handles = {}
        self.h2m = {}
        self.session_clean = True      # R2: no key released-and-retaken, no cycle among new objects, no fault
        self.dup_pending = None
        self.released_keys = set()
        self.taken_keys = set()
        self.op_index = None
        self.sess_index = None
        self.want_c13 = case.get('c13', True)
        # checks of other properties go on after a failed call changed the session (the model stays where it was):
        # what the damaged session does next is judged by their own oracles
        self.go_on_after_c13 = bool(case.get('go_on_after_c13'))
        self.want_inv = case.get('invariants', True)
        self.peer_fired = []
        self.fault_fired_in_session = False
        self.c13_hits = 0
        self.cur_op_desc = ''
        self.trace = []
        self.op_calls = []
        self.key_conflict_reported = False
        self.db_commits = 0

    # ------------------------------------------------------------------ infrastructure
    def viol(self, prop, sub, shape, detail):
        if getattr(self, 'blind', False):
            # the program caught a database error and carried on: the model no longer claims to follow the
            # session, only the all-or-nothing comparison when the session has been rolled back is judged
            return
        key = '%s|%s|%s' % (prop, sub, shape)
        if getattr(self, 'peer', None) and not key.startswith(PEER_JUDGED):
            # a peer wrote behind the session's back: the model does not follow the session any more (see op_peer)
            return
        if prop == 'C13':
            self.c13_hits += 1
        if not any(v['key'] == key for v in self.violations):
            self.violations.append({'prop': prop, 'key': key,
                                    'detail': '%s [session %s op %s: %s]' % (detail, self.sess_index, self.op_index,
                                                                            self.cur_op_desc)})

    def probe(self, name, n=1):
        self.probes[name] = self.probes.get(name, 0) + n

    def build(self):
        db = self.db = orm.Database()
        ns = {'db': db, 'Required': orm.Required, 'Optional': orm.Optional, 'Set': orm.Set,
              'PrimaryKey': orm.PrimaryKey, 'composite_key': orm.composite_key, 'int': int, 'str': str,
              'float': float, 'Json': orm.Json, 'HOOKLOG': self.log}
        self.hooks_setup(ns)
        src_knobs = dict(self.knobs)
        src_knobs['hooks'] = self.hook_sources()
        exec(self.schema.source(src_knobs), ns)
        self.path = os.path.join(self.scratch, 'seq.sqlite')
        if self.knobs.get('cache_size'):
            cs = int(self.knobs['cache_size'])

            @db.on_connect(provider='sqlite')
            def _pragma(db_, con):
                con.execute('PRAGMA cache_size = %d' % cs)
        self.raw_kw = {}
        if self.knobs.get('dbkind') == 'shared' and (self.case.get('end_fault') or self.case.get('faults')
                                                      or self.case.get('fault_op')):
            # injected database faults are for file databases (a failed ROLLBACK would leave the shared in-memory
            # database locked for the oracle's own connection)
            self.knobs = dict(self.knobs, dbkind='file')
        if self.knobs.get('dbkind') == 'shared':
            # an in-memory database shared by the connections of this process (':sharedmemory:'): Pony keeps its
            # connection for good (disconnect / drop do not close it); the oracle's own connection opens the same URI
            db.bind('sqlite', ':sharedmemory:', timeout=0)
            self.path = db.provider.pool.filename
            self.raw_kw = {'uri': True}
        else:
            db.bind('sqlite', self.path, create_db=True, timeout=0)
        db.generate_mapping(create_tables=True)
        if self.knobs.get('legacy_keys') and not self.raw_kw:
            self.strip_unique_constraints()
        procstate.register_db(db)
        self.E = dict((e.name, ns[e.name]) for e in self.schema.entities)
        if self.knobs.get('max_params_count'):
            db.provider.max_params_count = int(self.knobs['max_params_count'])
        if 'nplus1' in self.knobs:
            for e in self.schema.entities:
                for a in e.attrs:
                    if a.is_set:
                        getattr(self.E[e.name], a.name).nplus1_threshold = self.knobs['nplus1']
        self.dump_sql = self._make_dump_sql()
        simdb.ctx.after_call = self.after_db_call

    def strip_unique_constraints(self):
        """re-create the (still empty) tables without UNIQUE constraints on non-primary keys"""
        import re
        import sqlite3
        self.db.disconnect()
        con = sqlite3.connect(self.path, isolation_level=None)
        try:
            con.execute('PRAGMA foreign_keys = OFF')
            items = con.execute("SELECT type, name, sql FROM sqlite_master WHERE sql IS NOT NULL "
                                "AND name NOT LIKE 'sqlite_%' ORDER BY rowid").fetchall()
            for typ, name, sql in items:
                if typ == 'table':
                    con.execute('DROP TABLE "%s"' % name)
            for typ, name, sql in items:
                if typ == 'table':
                    sql = re.sub(r',\s*CONSTRAINT "unq_[^"]*" UNIQUE \([^)]*\)', '', sql)
                    sql = sql.replace(' UNIQUE', '')
                    assert 'UNIQUE' not in sql, sql
                con.execute(sql)
        finally:
            con.close()

    def raw_rows(self, sql):
        import sqlite3
        con = sqlite3.connect(self.path, isolation_level=None, **self.raw_kw)
        try:
            return con.execute(sql).fetchall()
        finally:
            con.close()

    def after_db_call(self, ev):
        """The committed model moves exactly when a real COMMIT of an open transaction returns: whatever
        happens afterwards (errors while releasing the connection included) cannot undo it."""
        if ev['phase'] == 'main' and ev['kind'] == 'commit' and ev.get('in_tx') and 'exc' not in ev \
                and self.view is not None:
            self.refresh_pks()
            for o in self.view.live():
                o.stored = True
            self.committed = self.view.clone()
            self.db_commits += 1

    def _make_dump_sql(self):
        """SELECT statements built from Pony's own metadata (table / column names)."""
        q = self.db.provider.quote_name
        out = {'ent': {}, 'm2m': {}}
        for e in self.schema.entities:
            P = self.E[e.name]
            cols = []
            layout = []
            for a in e.attrs:
                pa = getattr(P, a.name)
                if a.is_set:
                    continue
                if not pa.columns:
                    continue
                layout.append((a.name, len(pa.columns), 'json' if a.is_json else a.is_rel))
                cols.extend(pa.columns)
            pkcols = list(P._pk_columns_)
            where = ''
            if P._discriminator_attr_ is not None:
                # single-table inheritance: the rows of exactly this class
                where = " WHERE %s = '%s'" % (q(P._discriminator_attr_.column), P._discriminator_)
            out['ent'][e.name] = ('SELECT %s FROM %s%s' % (', '.join(q(c) for c in pkcols + cols), q(P._table_), where),
                                  len(pkcols), layout)
            for a in e.sets():
                if a.reverse.is_set and self.committed.canon(a) == (e.name, a.name):
                    pa = getattr(P, a.name)
                    if pa.symmetric:
                        c1, c2 = pa.columns, pa.reverse_columns
                    else:
                        c1, c2 = pa.reverse.columns, pa.columns
                    out['m2m'][(e.name, a.name)] = ('SELECT %s FROM %s' % (', '.join(q(c) for c in list(c1) + list(c2)),
                                                                          q(pa.table)), len(c1), pa.symmetric)
        return out

    def dump(self, path=None):
        con = simdb.raw_connect(path or self.path, **self.raw_kw)
        try:
            ents = {}
            for en, (sql, npk, layout) in self.dump_sql['ent'].items():
                rows = {}
                for r in con.execute(sql).fetchall():
                    pk = tuple(r[:npk])
                    row = {}
                    i = npk
                    for (an, n, is_rel) in layout:
                        v = tuple(r[i:i + n])
                        i += n
                        if is_rel == 'json':
                            row[an] = None if v[0] is None else json.loads(v[0])
                        elif is_rel:
                            row[an] = None if all(x is None for x in v) else v
                        else:
                            row[an] = v[0]
                    rows[pk] = row
                ents[en] = rows
            m2m = {}
            for k, (sql, n1, sym) in self.dump_sql['m2m'].items():
                s = set()
                for r in con.execute(sql).fetchall():
                    p = (tuple(r[:n1]), tuple(r[n1:]))
                    if sym:
                        p = tuple(sorted(p))
                    s.add(p)
                m2m[k] = s
            fk = con.execute('PRAGMA foreign_key_check').fetchall()
            return ents, m2m, fk
        finally:
            con.close()

    def expected_tables(self, view):
        ents, m2m = view.table_rows()
        # keep only the attributes that have columns on this side (ask Pony, not the fallback rule)
        for en, rows in ents.items():
            layout = dict((an, is_rel) for (an, n, is_rel) in self.dump_sql['ent'][en][2])
            for pk, row in rows.items():
                for an in list(row):
                    if an not in layout:
                        e = self.schema.by_name[en]
                        if e.by_name[an].is_pk:
                            del row[an]
                        else:
                            del row[an]
                for an in layout:
                    if an not in row:
                        # to-one attribute whose column lives here according to Pony
                        a = self.schema.by_name[en].by_name[an]
                        o = [x for x in view.live(en) if x.pk == pk][0]
                        p = view.get_one(a, o.mid)
                        row[an] = view.objs[p].pk if p is not None else None
        m2 = {}
        for k, s in m2m.items():
            sym = self.dump_sql['m2m'][k][2]
            m2[k] = set(tuple(sorted(p)) if sym else p for p in s)
        return ents, m2

    def compare_db(self, view, prop, sub, when):
        got_e, got_m, fk = self.dump()
        exp_e, exp_m = self.expected_tables(view)
        diffs = []
        for en in exp_e:
            g, x = got_e.get(en, {}), exp_e[en]
            for pk in sorted(set(g) | set(x), key=repr):
                if pk not in g:
                    diffs.append('%s%r missing in database (expected %r)' % (en, pk, x[pk]))
                elif pk not in x:
                    diffs.append('%s%r unexpected in database: %r' % (en, pk, g[pk]))
                elif g[pk] != x[pk]:
                    d = dict((k, (x[pk].get(k), g[pk].get(k))) for k in set(g[pk]) | set(x[pk])
                             if g[pk].get(k) != x[pk].get(k))
                    diffs.append('%s%r differs (expected, got): %r' % (en, pk, d))
        for k in exp_m:
            g, x = got_m.get(k, set()), exp_m[k]
            if g != x:
                diffs.append('link table of %s.%s: missing %r, unexpected %r' % (k[0], k[1], sorted(x - g), sorted(g - x)))
        if diffs:
            self.viol(prop, sub, when, 'database differs from the state the program %s: %s'
                      % ('committed' if 'commit' in when else 'had committed before', '; '.join(diffs[:4])))
            if self.key_conflict_reported and 'commit' not in when:
                # C14: a conflict found at flush time leaves the database unchanged for that session
                self.viol('C14', 'conflict-at-flush-left-changes', when,
                          'the flush reported a key conflict, yet the database differs from the previously committed '
                          'state: %s' % '; '.join(diffs[:4]))
        if fk:
            self.viol('C15', 'dangling-reference', when, 'PRAGMA foreign_key_check reports %r' % (fk[:3],))
        dups = self._dup_keys_in_dump(got_e)
        if dups:
            self.viol('C14', 'duplicate-key-in-database', when, 'equal key values in committed rows: %r' % (dups[:3],))
        return not diffs

    def _dup_keys_in_dump(self, ents):
        out = []
        for e in self.schema.entities:
            rows = ents.get(e.name, {})
            keys = [(a.name,) for a in e.attrs if a.opts.get('unique') and not a.is_rel] + list(e.composite_keys)
            for k in keys:
                seen = {}
                for pk, row in rows.items():
                    v = tuple(row.get(a) for a in k)
                    if any(x is None for x in v):
                        continue
                    if v in seen:
                        out.append((e.name, k, v))
                    seen[v] = pk
        return out

    # ------------------------------------------------------------------ handles
    def new_mid(self):
        self.mid_counter += 1
        return self.mid_counter

    def handle(self, mid):
        """Pony object for a model object, fetched by primary key when not yet held in this session."""
        h = self.handles.get(mid)
        if h is not None:
            mo = self.view.objs.get(mid)
            if mo is not None and type(h).__name__ != mo.ent and h._status_ not in ('created', 'deleted', 'cancelled',
                                                                                  'marked_to_delete'):
                # single-table inheritance: an object first met as a bare reference has the class of the attribute
                # that refers to it until its row is loaded; a program reaches the subclass attributes (or assigns
                # them) only through the refined object, so load it (an assignment of `gpa` to an unrefined Person
                # is a plain Python attribute of that object, not a write)
                try:
                    h.load()
                    self.probe('seed_refined_before_use')
                except Exception:
                    pass
            return h
        mo = self.view.objs[mid]
        P = self.E[mo.ent]
        pk = mo.pk
        assert pk is not None, mo
        e = self.schema.by_name[mo.ent]
        how = self.knobs.get('fetch', 0)
        if how >= 2:
            # reach the object first as an unloaded reference (a "seed" known only by its primary key):
            # load some stored object that refers to it and navigate
            for r in sorted(self.view.live(), key=lambda o: o.mid):
                if r.mid == mid or not r.stored or r.pk is None:
                    continue
                re_ = self.schema.by_name[r.ent]
                for ra in re_.to_ones():
                    if ra.rel != mo.ent or not getattr(self.E[r.ent], ra.name).columns:
                        continue
                    if self.view.get_one(ra, r.mid) != mid:
                        continue
                    rh = self.handles.get(r.mid)
                    if rh is None:
                        R = self.E[r.ent]
                        rh = R[r.pk[0] if len(r.pk) == 1 else r.pk]
                        self.register(r.mid, rh)
                    h = getattr(rh, ra.name)
                    if h is not None:
                        self.probe('seed_reached_by_navigation')
                        self.register(mid, h)
                        return h
        if len(e.pk_attrs) == 1 and not e.pk_attrs[0].is_rel:
            h = P[pk[0]] if how % 2 == 0 else P.get(**{e.pk_attrs[0].name: pk[0]})
        else:
            h = P[pk] if how % 2 == 0 else P.get(**dict((a.name, v) for a, v in zip(e.pk_attrs, pk)))
        if h is None:
            raise core.ObjectNotFound(P, pk)
        self.register(mid, h)
        return h

    def register(self, mid, h):
        self.handles[mid] = h
        self.h2m[id(h)] = mid

    def mid_of(self, h):
        """model id of a Pony object returned by the system (registers it when first seen)"""
        m = self.h2m.get(id(h))
        if m is not None and self.handles.get(m) is h:
            return m
        en = type(h).__name__
        pk = h._get_raw_pkval_() if h._pkval_ is not None else None
        # (an object first seen as a bare reference has the class of the attribute that refers to it, i.e. possibly a
        # base class, until its row is loaded: primary keys are unique over the hierarchy)
        cands = [o for o in self.view.objs.values() if (o.ent == en or self.view._is_sub(o.ent, en))
                 and o.pk is not None and o.pk == pk]
        if cands:
            o = cands[-1]
            prev = self.handles.get(o.mid)
            if prev is not None and prev is not h:
                self.viol('C11', 'two-objects-for-one-key', en,
                          'the system returned a second Python object for %s%r within one session' % (en, pk))
            self.register(o.mid, h)
            return o.mid
        return None

    def refresh_pks(self):
        for mid, h in list(self.handles.items()):
            mo = self.view.objs.get(mid)
            if mo is not None and mo.pk is None and h._pkval_ is not None:
                raw = tuple(h._get_raw_pkval_())
                if any(x is None for x in raw):
                    continue        # a key made of a reference to an object that has no key yet
                mo.pk = raw
                for a, v in zip(self.schema.by_name[mo.ent].pk_attrs, mo.pk):
                    if not a.is_rel:
                        mo.vals[a.name] = v

    # ------------------------------------------------------------------ op helpers
    def live_sorted(self, ent=None, stored_or_handle=True):
        objs = sorted(self.view.live(ent), key=lambda o: o.mid)
        return objs

    def pick(self, n, ent=None):
        objs = self.live_sorted(ent)
        if not objs:
            return None
        return objs[n % len(objs)]

    def cache(self):
        return core.local.db2cache.get(self.db)

    def modify(self, desc, pony_fn, model_fn, must_fail=None, mids=()):
        """Run one modification on Pony; on success apply it to (a clone of) the model."""
        self.cur_op_desc = desc
        # objects the call needs are fetched first: fetching may query (and auto-flush), which is not
        # part of the modification being judged
        for m in mids:
            self.handle_or_poison(m)
        cache = self.cache()
        snap = whitebox.snapshot(cache) if (self.want_c13 and cache is not None) else None
        g0 = len(simdb.ctx.fired)
        n_viol = self.c13_hits
        try:
            res = pony_fn()
        except (Marker, Poisoned):
            raise
        except Exception as e:
            self.probe('modification_refused')
            if os.environ.get('PONYSIM_DEV_TB'):
                traceback.print_exc()
            self.trace.append('%s.%s FAIL %s -> %s: %s' % (self.sess_index, self.op_index, desc, type(e).__name__, str(e)[:100]))
            self.probe('refused_' + type(e).__name__)
            if getattr(self, 'peer', None):
                raise Poisoned()        # after a peer's write any error ends the session (see op_peer)
            fault = len(simdb.ctx.fired) > g0
            if isinstance(e, core.UnrepeatableReadError) and not fault and not self.fault_fired_in_session \
                    and not must_fail:
                # nobody else writes to this database: a modification that reports a concurrent change was refused
                # for what the session itself had pending (under loading knobs the check re-tags this as C23).
                # (A call the model refuses anyway - a key that a stored, not loaded row holds - may fail with any
                # error: creating Group(1, 2) a second time and linking a member of the stored one is reported so.)
                self.viol('C10', 'modification-raised-unrepeatable', desc.split(' ')[0],
                          '%s raised UnrepeatableReadError in a history with a single writer: %s' % (desc, str(e)[:240]))
            if fault:
                self.fault_fired_in_session = True
                self.probe('modification_failed_by_injected_fault')
            if self.want_c13:
                cache2 = self.cache()
                if cache2 is not cache:
                    self.viol('C13', 'session-replaced', 'op=%s|exc=%s' % (desc.split(' ')[0], type(e).__name__),
                              'the failing call replaced or ended the session cache')
                else:
                    d = whitebox.diff_snapshots(snap, whitebox.snapshot(cache2))
                    if d:
                        self.viol('C13', 'session-changed-by-failed-call',
                                  'op=%s|exc=%s%s' % (desc.split(' ')[0], type(e).__name__, '|fault' if fault else ''),
                                  '%s raised %s: %s, yet the session differs: %s'
                                  % (desc, type(e).__name__, str(e)[:120], '; '.join(d[:4])))
                        if desc.startswith('del ') and not fault:
                            # C15: a refused delete must be "an error and no change"
                            self.viol('C15', 'refused-delete-changed-session', 'exc=%s' % type(e).__name__,
                                      '%s was refused (%s: %s) but changed the session: %s'
                                      % (desc, type(e).__name__, str(e)[:120], '; '.join(d[:4])))
            if isinstance(e, (AssertionError, KeyError, AttributeError, IndexError)) and not fault:
                # an internal error instead of a clean refusal: the property only demands that the session is
                # unchanged (checked above), not a particular exception class - recorded as an observation
                self.probe('obs_internal_error_instead_of_refusal_' + type(e).__name__)
            if self.c13_hits > n_viol and not (self.go_on_after_c13 and not fault):
                # the session is now in a state the model cannot follow: abandon it (no cascading alarms)
                raise Poisoned()
            return ('refused', e)
        v2 = self.view.clone()
        try:
            model_fn(v2)
        except Refuse as r:
            self.viol('C15', 'accepted-what-the-rule-refuses', 'op=%s' % desc.split(' ')[0],
                      '%s was accepted, but the documented rule refuses it: %s' % (desc, r))
            raise Poisoned()
        # whatever the operation deleted (directly or by cascade) released its key values: taking one of them
        # again before the next flush makes the statement order matter (R2)
        for mid, o in self.view.objs.items():
            if not o.deleted and mid in v2.objs and v2.objs[mid].deleted:
                self._note_keys_released(self.schema.by_name[o.ent], o.vals)
        self.view = v2
        self.note_fk_edges()
        if must_fail and self.knobs.get('legacy_keys'):
            # tables without UNIQUE constraints (a legacy schema mapped with create_tables=False): the identity
            # map is the only thing that can report the conflict, and only for a key held by a loaded object
            self.legacy_duplicate_accepted(desc, must_fail)
            raise Poisoned()
        if must_fail:
            # Pony accepted a change that duplicates a key of a row it has not loaded (R3).  The session's
            # identity map can no longer be followed by the model, so the flush that must report the
            # conflict is injected right away (an injected flush is always legal, see C10).
            self.dup_pending = must_fail
            self.probe('duplicate_pending_injected_flush')
            self.op_flush()          # raises Poisoned when the flush fails, as it must
            self.viol('C14', 'duplicate-key-accepted-at-flush', 'op=%s' % desc.split(' ')[0],
                      '%s duplicates %s and the flush did not report it' % (desc, must_fail))
            raise Poisoned()
        self.probe('modification_accepted')
        self.trace.append('%s.%s OK   %s' % (self.sess_index, self.op_index, desc))
        return ('ok', res)

    def legacy_duplicate_accepted(self, desc, dup):
        h = self.handles.get(getattr(dup, 'other', None))
        known = False
        if h is not None and h._vals_ is not None and h._status_ not in ('deleted', 'cancelled', 'marked_to_delete'):
            E = self.E[dup.ent]
            known = all(h._vals_.get(getattr(E, n), core.NOT_LOADED) is not core.NOT_LOADED for n in dup.attrs)
            if known and dup.mid is not None:
                # the changed object as well: Pony computes its new key from the parts it has loaded
                h2 = self.handles.get(dup.mid)
                known = h2 is not None and h2._vals_ is not None and all(
                    h2._vals_.get(getattr(E, n), core.NOT_LOADED) is not core.NOT_LOADED for n in dup.attrs)
        if not known:
            self.probe('legacy_duplicate_of_unloaded_row')      # nobody can know: no verdict
            return
        self.probe('legacy_duplicate_of_loaded_object')
        try:
            orm.commit()
        except Exception as e:
            self.probe('legacy_duplicate_reported_at_commit_' + type(e).__name__)
            return
        rows = self.raw_rows('SELECT %s FROM %s' % (', '.join('"%s"' % getattr(self.E[dup.ent], n).column for n in dup.attrs),
                                                    '"%s"' % self.E[dup.ent]._table_))
        n = sum(1 for r in rows if tuple(r) == tuple(dup.vals))
        if n > 1:
            self.viol('C14', 'duplicate-key-committed', 'op=%s' % desc.split(' ')[0],
                      '%s duplicates %s held by an object loaded in the session; nothing reported it and %d rows '
                      'with that key were committed (table without UNIQUE constraint)' % (desc, dup, n))

    # ------------------------------------------------------------------ invariants after every op
    def after_op(self):
        cache = self.cache()
        if cache is None or not self.want_inv:
            return
        for sub, shape, detail in whitebox.identity_invariants(cache):
            self.viol('C11', sub, shape, detail)
        for sub, shape, detail in whitebox.relation_invariants(cache):
            self.viol('C12', sub, shape, detail)
        self.states.add(hsh([sorted((o.ent, o.deleted, o.stored) for o in self.view.objs.values()),
                             sorted((k, len(v)) for k, v in self.view.rels.items()), bool(cache.modified)]))


from . import seq_ops  # noqa: E402  (operation interpreter, kept in a second file)


PEER_JUDGED = ('C11|index-', 'C11|object-', 'C09|update-of-vanished-row-accepted', 'C09|rolled-back-changes-visible',
               'C09|failed-session-changes-visible', 'C14|duplicate-key-in-database', 'C15|dangling-reference')


def run_case(case, scratch):
    return seq_ops.run_case(case, scratch)


def shrink(case):
    return seq_ops.shrink(case)
