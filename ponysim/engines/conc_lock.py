"""CONC modes c35 (for_update / serializable vs. writers and an external raw writer)
and c14 (concurrent key collisions)."""
import sqlite3

from pony.orm import core
from pony.orm import db_session, select, commit, rollback, flush

from .. import simdb, simsched
from . import conc
from .conc import Mode, build_bank, populate_bank, dump_bank, exc_str
from .conc_data import NAMES, is_isolation_error


class LockRec(object):
    def __init__(self, sid, thread, role, kind):
        self.sid = sid
        self.thread = thread
        self.role = role
        self.kind = kind
        self.held = set()        # names this session holds locked (until its transaction ends)
        self.incr = {}           # name -> pending increments of bal
        self.notes = {}          # name -> pending note value
        self.had_commit = False
        self.outcome = None
        self.live = True
        self.in_tx = False       # a database transaction of this session is open (BEGIN IMMEDIATE .. COMMIT/ROLLBACK)
        self.cached_incr = False


class C35(Mode):
    name = 'c35'
    prop = 'C35'

    def setup(self):
        self.db, self.ns, self.path = build_bank(self.scratch, self.knobs.get('cache_size'))
        self.Acct = self.ns['Acct']
        populate_bank(self.ns)
        self.db.disconnect()
        self.uid = 0
        self.current = {}
        self.sessions = []
        self.expected_bal = dict((n, 100) for n in NAMES)
        self.expected_note = dict((n, 'n%d' % i) for i, n in enumerate(NAMES))
        self.applied = []
        simdb.ctx.after_call = self.after_db_call

    # ---- model transitions
    def holders_of(self, n, but=None):
        return [r for r in self.sessions if r.live and r is not but and n in r.held]

    def write_applied(self, actor, n, what):
        """a write to row n has just been committed by `actor` (a LockRec or 'ext')"""
        self.applied.append((getattr(actor, 'sid', actor), n, what))
        for r in self.holders_of(n, but=actor if isinstance(actor, LockRec) else None):
            self.viol('write-applied-to-locked-row', 'holder=%s:%s|writer=%s' % (r.role, r.kind,
                      actor.role if isinstance(actor, LockRec) else 'external'),
                      'row %s is held by session %d (%s/%s, thread %s) but a write (%s) by %s was committed before '
                      'that session ended' % (n, r.sid, r.role, r.kind, r.thread, what,
                                              ('session %d' % actor.sid) if isinstance(actor, LockRec) else 'the external writer'))

    def tx_end(self, rec, committed):
        if committed:
            for n, k in sorted(rec.incr.items()):
                self.expected_bal[n] += k
                self.write_applied(rec, n, 'bal += %d' % k)
            for n, v in sorted(rec.notes.items()):
                self.expected_note[n] = v
                self.write_applied(rec, n, 'note')
            self.probe('pony_commits')
        rec.incr = {}
        rec.notes = {}
        rec.held = set()
        rec.in_tx = False

    def after_db_call(self, ev):
        # the model follows the transaction state of the real connection after every call,
        # including calls replaced by an injected fault (which may roll the transaction back)
        if ev['phase'] != 'main' or 'tx_after' not in ev:
            return
        rec = self.current.get(ev['t'])
        if rec is None or not rec.live:
            return
        if ev['tx_after'] and not rec.in_tx:
            rec.in_tx = True
        elif rec.in_tx and not ev['tx_after']:
            self.tx_end(rec, ev['kind'] == 'commit' and 'exc' not in ev)

    # ---- actors
    def pony_session(self, tname, sess):
        self.uid += 1
        rec = LockRec(self.uid, tname, sess['role'], sess.get('kind', 'opt'))
        self.sessions.append(rec)
        self.current[tname] = rec
        Acct = self.Acct
        kw = {}
        if rec.kind == 'serializable':
            kw['serializable'] = True
        elif rec.kind == 'nonopt':
            kw['optimistic'] = False
        elif rec.kind == 'immediate':
            kw['immediate'] = True
        handles = {}
        fired0 = len(simdb.ctx.fired)
        whole_db = rec.kind in ('serializable', 'nonopt')
        try:
            with db_session(**kw):
                for st in sess['steps']:
                    self.op_yield()
                    op = st[0]
                    n = NAMES[st[1] % 3] if len(st) > 1 else None
                    if op == 'lock':
                        v = st[2] % 5
                        if v == 0:
                            o = Acct.get_for_update(name=n)
                            got = {n: o} if o is not None else {}
                        elif v == 1:
                            o = Acct.get_for_update(name=n, nowait=True)
                            got = {n: o} if o is not None else {}
                        elif v == 2:
                            got = dict((a.name, a) for a in select(a for a in Acct if a.name == n).for_update()[:])
                        elif v == 3:
                            got = dict((a.name, a) for a in
                                       select(a for a in Acct if a.name == n).for_update(skip_locked=True)[:])
                        else:
                            got = dict((a.name, a) for a in select(a for a in Acct).for_update()[:])
                        handles.update(got)
                        rec.held |= set(got)
                        self.probe('lock_steps')
                    elif op == 'read':
                        if n in rec.held:
                            handles[n].bal
                        elif whole_db:
                            # a real database read inside the session's current transaction
                            lst = select(a for a in Acct if a.name == n)[:]
                            if lst and rec.in_tx:
                                handles[n] = lst[0]
                                lst[0].bal
                                rec.held.add(n)     # a serializable session "holds" everything it read
                            elif lst and not any(f[1] == tname for f in simdb.ctx.fired[fired0:]):
                                # the SELECT went out, no transaction (SQLite: BEGIN IMMEDIATE + the provider's
                                # lock) is open on this connection: nothing stops another session changing the row
                                self.viol('serializable-read-outside-transaction',
                                          'kind=%s|after_commit=%s' % (rec.kind, rec.had_commit),
                                          'session %d (%s) read %r from the database while its connection had no open '
                                          'transaction: what it read is not protected until the session ends'
                                          % (rec.sid, rec.kind, n))
                    elif op == 'incr':
                        if n in rec.held:
                            o = handles[n]
                            o.bal = o.bal + 1
                            rec.incr[n] = rec.incr.get(n, 0) + 1
                    elif op == 'incr_cached':
                        # user code that keeps using an object after a mid-session commit() without re-reading it
                        if whole_db and n in handles and n not in rec.held and rec.had_commit:
                            o = handles[n]
                            o.bal = o.bal + 1
                            rec.incr[n] = rec.incr.get(n, 0) + 1
                            rec.cached_incr = True
                            self.probe('cached_increment_after_commit')
                    elif op == 'wnote':
                        # optimistic, unlocked write of a unique value (may legitimately fail at commit)
                        if not whole_db:
                            o = handles.get(n) or Acct.get(name=n)
                            if o is not None:
                                handles[n] = o
                                self.uid += 1
                                o.note = 'p%d' % self.uid
                                rec.notes[n] = o.note
                    elif op == 'flush':
                        flush()
                    elif op == 'commit':
                        commit()
                        rec.had_commit = True
                    elif op == 'yield':
                        pass
            rec.outcome = 'ok'
        except simsched.SimAbort:
            raise
        except BaseException as e:
            rec.outcome = 'failed:' + type(e).__name__
            fault_hit = any(f[1] == tname for f in simdb.ctx.fired[fired0:])
            only_locked = all(s[0] != 'wnote' for s in sess['steps'])
            if (is_isolation_error(e) and not fault_hit and not rec.had_commit and only_locked
                    and (rec.role == 'locker' or whole_db)):
                self.viol('locking-session-isolation-error', 'kind=%s|exc=%s' % (rec.kind, type(e).__name__),
                          'session %d (%s/%s) touched only rows it had locked, yet failed with %s'
                          % (rec.sid, rec.role, rec.kind, exc_str(e)))
        finally:
            rec.live = False
            rec.held = set()
            rec.incr = {}
            rec.notes = {}

    def ext_session(self, tname, sess):
        """the adversary: a raw sqlite3 connection that ignores Pony's Python-level lock"""
        s = self.sched
        con = sqlite3.connect(self.path, isolation_level=None, timeout=0)
        try:
            for st in sess['steps']:
                n = NAMES[st[1] % 3]
                began = False
                try:
                    s.yield_point('ext')
                    con.execute('BEGIN IMMEDIATE')
                    began = True
                    s.db_call_done()
                    s.yield_point('ext')
                    if st[0] == 'xincr':
                        con.execute('UPDATE Acct SET bal = bal + 1 WHERE name = ?', (n,))
                    else:
                        self.uid += 1
                        note = 'x%d' % self.uid
                        con.execute('UPDATE Acct SET note = ? WHERE name = ?', (note, n))
                    s.db_call_done()
                    s.yield_point('ext')
                    con.execute('COMMIT')
                    began = False
                    if st[0] == 'xincr':
                        self.expected_bal[n] += 1
                        self.write_applied('ext', n, 'bal += 1')
                    else:
                        self.expected_note[n] = note
                        self.write_applied('ext', n, 'note')
                    self.probe('ext_applied')
                    s.db_call_done()
                except sqlite3.OperationalError as e:
                    self.probe('ext_refused')
                    if began:
                        try:
                            con.execute('ROLLBACK')
                        except sqlite3.Error:
                            pass
                    s.db_call_done()
        finally:
            con.close()

    def thread_body(self, name, prog):
        for sess in prog:
            if sess['role'] == 'ext':
                self.ext_session(name, sess)
            else:
                self.pony_session(name, sess)
        try:
            self.db.disconnect()
        except simsched.SimAbort:
            raise
        except BaseException:
            pass

    def check(self, outcome):
        if outcome != 'all-finished':
            self.viol('deadlock', 'outcome=%s' % outcome, 'threads did not finish: %r' % (self.sched.deadlock_info,))
            return
        d = dump_bank(self.path)
        got_bal = dict((row[1], row[2]) for row in d['Acct'])
        got_note = dict((row[1], row[3]) for row in d['Acct'])
        if got_bal != self.expected_bal:
            shape = 'conservation'
            if any(r.cached_incr for r in self.sessions):
                shape = 'nonoptimistic-session-used-cached-value-after-commit'
            self.viol('increment-lost', shape,
                      'balances %r differ from initial + committed increments %r (applied: %r)'
                      % (got_bal, self.expected_bal, self.applied[-8:]))
        if got_note != self.expected_note:
            self.viol('write-lost', 'note', 'notes %r differ from the last committed writes %r' % (got_note, self.expected_note))
        self.obs['sessions'] = [[r.sid, r.role, r.kind, r.outcome] for r in self.sessions]


conc.MODES['c35'] = C35


# ---------------------------------------------------------------------------
# c14: concurrent creators / renamers colliding on unique keys

class KeyRec(object):
    def __init__(self, sid, thread):
        self.sid = sid
        self.thread = thread
        self.creates = []      # (obj, name, note)
        self.renames = []      # (obj, new_name)
        self.tags = []         # (obj, name)
        self.notes = []        # (obj, note)
        self.outcome = None


class C14(Mode):
    name = 'c14'
    prop = 'C14'

    def setup(self):
        self.db, self.ns, self.path = build_bank(self.scratch, self.knobs.get('cache_size'))
        self.Acct, self.Tag = self.ns['Acct'], self.ns['Tag']
        populate_bank(self.ns)
        self.db.disconnect()
        self.uid = 0
        self.current = {}
        self.sessions = []
        d = dump_bank(self.path)
        self.accts = dict((row[0], [row[1], row[3]]) for row in d['Acct'])     # id -> [name, note]
        self.tags = dict((row[0], row[1]) for row in d['Tag'])
        simdb.ctx.after_call = self.after_db_call

    def after_db_call(self, ev):
        if ev['phase'] != 'main' or 'exc' in ev:
            return
        if ev['kind'] == 'commit' and ev.get('in_tx'):
            rec = self.current.get(ev['t'])
            if rec is not None:
                self.apply(rec)

    def apply(self, rec):
        for obj, name, note in rec.creates:
            self.accts[obj._pkval_] = [name, note]
        for obj, new in rec.renames:
            if obj._pkval_ in self.accts:
                self.accts[obj._pkval_][0] = new
        for obj, note in rec.notes:
            if obj._pkval_ in self.accts:
                self.accts[obj._pkval_][1] = note
        for obj, name in rec.tags:
            self.tags[obj._pkval_] = name
        rec.creates, rec.renames, rec.notes, rec.tags = [], [], [], []
        names = [v[0] for v in self.accts.values()]
        dup = sorted(set(n for n in names if names.count(n) > 1))
        if dup:
            self.viol('duplicate-key-committed', 'Acct.name', 'session %d committed although name(s) %r are now held '
                      'by two rows in the committed state' % (rec.sid, dup))
        tnames = list(self.tags.values())
        tdup = sorted(set(n for n in tnames if tnames.count(n) > 1))
        if tdup:
            self.viol('duplicate-key-committed', 'Tag.name', 'session %d committed although tag name(s) %r are now '
                      'duplicated' % (rec.sid, tdup))
        self.probe('commits')

    def thread_body(self, name, prog):
        Acct, Tag = self.Acct, self.Tag
        for sess in prog:
            self.uid += 1
            rec = KeyRec(self.uid, name)
            self.sessions.append(rec)
            self.current[name] = rec
            try:
                with db_session:
                    for st in sess['steps']:
                        self.op_yield()
                        op = st[0]
                        self.uid += 1
                        u = self.uid
                        if op == 'create':
                            nm = 'k%d' % (st[1] % 3)
                            o = Acct(name=nm, bal=u, note='c%d' % u)
                            rec.creates.append((o, nm, 'c%d' % u))
                        elif op == 'rename':
                            o = Acct.get(name=NAMES[st[1] % 3])
                            if o is not None:
                                nm = 'k%d' % (st[2] % 3)
                                o.name = nm
                                rec.renames.append((o, nm))
                        elif op == 'tag':
                            nm = 'k%d' % (st[1] % 3)
                            o = Tag(name=nm)
                            rec.tags.append((o, nm))
                        elif op == 'note':
                            o = Acct.get(name=NAMES[st[1] % 3])
                            if o is not None:
                                o.note = 'u%d' % u
                                rec.notes.append((o, 'u%d' % u))
                        elif op == 'flush':
                            flush()
                        elif op == 'commit':
                            commit()
                rec.outcome = 'ok'
            except simsched.SimAbort:
                raise
            except BaseException as e:
                rec.outcome = 'failed:' + type(e).__name__
                self.probe('session_failed')
                if isinstance(e, (core.TransactionIntegrityError, core.CacheIndexError)) or \
                        any(isinstance(x, (core.TransactionIntegrityError, core.CacheIndexError, sqlite3.IntegrityError))
                            for x in conc._chain(e)):
                    self.probe('key_conflict_reported')
        try:
            self.db.disconnect()
        except simsched.SimAbort:
            raise
        except BaseException:
            pass

    def check(self, outcome):
        if outcome != 'all-finished':
            self.viol('deadlock', 'outcome=%s' % outcome, 'threads did not finish: %r' % (self.sched.deadlock_info,),
                      prop='C14')
            return
        d = dump_bank(self.path)
        got_a = dict((row[0], [row[1], row[3]]) for row in d['Acct'])
        got_t = dict((row[0], row[1]) for row in d['Tag'])
        if got_a != self.accts or got_t != self.tags:
            diff = [(k, self.accts.get(k), got_a.get(k)) for k in sorted(set(got_a) | set(self.accts))
                    if got_a.get(k) != self.accts.get(k)]
            tdiff = [(k, self.tags.get(k), got_t.get(k)) for k in sorted(set(got_t) | set(self.tags))
                     if got_t.get(k) != self.tags.get(k)]
            self.viol('failed-session-left-changes', 'final-state',
                      'database differs from the replay of the sessions whose commit succeeded (id, expected, got): '
                      'Acct %r Tag %r; outcomes %r' % (diff[:4], tdiff[:4], [(r.sid, r.outcome) for r in self.sessions]))
        names = [v[0] for v in got_a.values()]
        if len(set(names)) != len(names):
            self.viol('duplicate-key-in-database', 'Acct.name', 'names %r' % sorted(names))


conc.MODES['c14'] = C14
