"""FORK engine (C36): a real os.fork() at enumerated positions relative to the parent's sessions.

case = {'engine': 'fork', 'isolate': True, 'position': ..., 'order': 'child_first'|'parent_first'|'alternating',
        'child_sessions': n, 'thread': bool}
Runs inside a throw-away child of the worker (isolate), so the fork tree dies with the case.
"""
import json
import os
import select as _select
import threading
import traceback

from pony import orm
from pony.orm import core
from pony.orm import db_session, select, commit, flush

from .. import simdb, procstate
from ..harness import hsh

POSITIONS = ('no_connection', 'pooled_idle', 'in_read_session', 'in_write_transaction', 'after_flush_uncommitted',
             'after_disconnect', 'after_commit_in_session', 'in_immediate_session')
ORDERS = ('child_first', 'parent_first', 'alternating')


def build(scratch, fname='fork.sqlite'):
    db = orm.Database()

    class Row(db.Entity):
        tag = orm.Required(str, unique=True)
        who = orm.Required(str)
    path = os.path.join(scratch, fname)
    db.bind('sqlite', path, create_db=True, timeout=0)
    db.generate_mapping(create_tables=True)
    procstate.register_db(db)
    return db, Row, path


def _send(fd, obj):
    data = (json.dumps(obj, default=repr) + '\n').encode()
    while data:
        n = os.write(fd, data)
        data = data[n:]


class LineReader(object):
    """line-buffered reads from a pipe (several messages may arrive in one read)"""

    def __init__(self, fd):
        self.fd = fd
        self.buf = b''
        self.eof = False

    def readline(self, timeout=20):
        while b'\n' not in self.buf and not self.eof:
            r, _, _ = _select.select([self.fd], [], [], timeout)
            if not r:
                return None
            c = os.read(self.fd, 65536)
            if not c:
                self.eof = True
                break
            self.buf += c
        if b'\n' in self.buf:
            line, self.buf = self.buf.split(b'\n', 1)
            return line.decode()
        return None


def grandchild_main(db, Row, second, w):
    """the child forked again: to the grandchild the connections the child opened are foreign"""
    c = simdb.ctx
    c.foreign_pid_use = []
    out = {}
    try:
        with db_session:
            out['read'] = sorted(select(r.tag for r in Row)[:])
        with db_session:
            Row(tag='g0', who='grandchild')
        out['wrote'] = 'g0'
        if second is not None:
            db2, Row2 = second
            with db_session:
                Row2(tag='g0', who='grandchild')
            out['wrote2'] = 'g0'
    except BaseException as e:
        out['error'] = '%s: %s' % (type(e).__name__, str(e)[:160])
    out['foreign_pid_use'] = c.foreign_pid_use[:10]
    _send(w, out)
    os._exit(0)


def child_main(db, Row, n_sessions, go_r, rep_w, order, child_fault=False, second=None, grandchild=False,
               disconnect=None):
    go = LineReader(go_r) if go_r is not None else None
    """what the application's child process does after the fork: its own sessions"""
    report = {'sessions': [], 'pid_ok': True}
    c = simdb.ctx
    c.foreign_pid_use = []
    n_conn0 = len(c.conns)
    if child_fault:
        # the child's first attempt to open its own connection fails (e.g. the file is briefly unavailable)
        armed = [True]
        c.phase = 'main'

        def before_call(ev):
            if armed[0] and ev['kind'] == 'connect':
                armed[0] = False
                c.gfaults[ev['g']] = 'cantopen'
        c.before_call = before_call
    try:
        # a forked worker starts from its own entry point: it is not inside the parent's with-block any more.
        # (state Pony keeps per thread is inherited by fork - that is exactly what the property is about)
        if disconnect == 'first':
            # a worker that "starts clean": db.disconnect() before anything else - closing a connection the
            # parent opened is a use of it as well
            db.disconnect()
            if second is not None:
                second[0].disconnect()
        for i in range(n_sessions):
            if order in ('parent_first', 'alternating') and go_r is not None:
                go.readline(30)
            if disconnect == 'after' and i == 1:
                db.disconnect()
                if second is not None:
                    second[0].disconnect()
            ent = {}
            try:
                with db_session:
                    ent['read'] = sorted(select(r.tag for r in Row)[:])
            except BaseException as e:
                ent['read_error'] = '%s: %s' % (type(e).__name__, str(e)[:120])
            try:
                with db_session:
                    Row(tag='c%d' % i, who='child')
                ent['wrote'] = 'c%d' % i
            except BaseException as e:
                ent['write_error'] = '%s: %s' % (type(e).__name__, str(e)[:120])
            if second is not None:
                # a second Database bound in the same process: its pool has inherited a connection as well
                db2, Row2 = second
                try:
                    with db_session:
                        ent['read2'] = sorted(select(r.tag for r in Row2)[:])
                    with db_session:
                        Row2(tag='c%d' % i, who='child')
                    ent['wrote2'] = 'c%d' % i
                except BaseException as e:
                    ent['write_error2'] = '%s: %s' % (type(e).__name__, str(e)[:120])
            report['sessions'].append(ent)
            if order == 'alternating':
                _send(rep_w, {'step': i})
        if grandchild:
            gr, gw = os.pipe()
            gpid = os.fork()
            if gpid == 0:
                os.close(gr)
                grandchild_main(db, Row, second, gw)
            os.close(gw)
            line = LineReader(gr).readline(30)
            try:
                os.waitpid(gpid, 0)
            except ChildProcessError:
                pass
            report['grandchild'] = json.loads(line) if line else {'error': 'no report from the grandchild'}
            # the child goes on using its own connection after it forked
            try:
                with db_session:
                    Row(tag='c_after_grandchild', who='child')
                report['wrote_after_grandchild'] = True
            except BaseException as e:
                report['after_grandchild_error'] = '%s: %s' % (type(e).__name__, str(e)[:120])
    except BaseException:
        report['crash'] = traceback.format_exc()[-1500:]
    report['foreign_pid_use'] = c.foreign_pid_use[:10]
    report['new_connections'] = len(c.conns) - n_conn0
    report['final'] = True
    _send(rep_w, report)
    os._exit(0)


def run_case(case, scratch):
    c = simdb.ctx
    position = case['position']
    order = case.get('order', 'child_first')
    n_child = int(case.get('child_sessions', 2))
    db, Row, path = build(scratch)
    second = None
    if case.get('second_db'):
        db2, Row2, path2 = build(scratch, 'fork2.sqlite')
        second = (db2, Row2)
    c.phase = 'setup'
    with db_session:
        Row(tag='seed0', who='setup')
        Row(tag='seed1', who='setup')
    if second is not None:
        with db_session:
            Row2(tag='seed0', who='setup')
    violations = []
    shape = 'position=%s|order=%s%s%s%s%s' % (position, order, '|thread' if case.get('thread') else '',
                                              '|child-connect-fault' if case.get('child_fault') else '',
                                              '|second-db' if second is not None else '',
                                              '|grandchild' if case.get('grandchild') else '') + \
        ('|child-disconnect-%s' % case['child_disconnect'] if case.get('child_disconnect') else '')

    def viol(sub, detail):
        key = 'C36|%s|%s' % (sub, shape)
        if not any(v['key'] == key for v in violations):
            violations.append({'prop': 'C36', 'key': key, 'detail': detail})

    state = {}

    def scenario():
        c.phase = 'main'
        go_r, go_w = os.pipe()
        rep_r, rep_w = os.pipe()
        parent_rows = []
        parent_rows2 = []
        state['parent_rows2'] = parent_rows2

        def do_fork():
            pid = os.fork()
            if pid == 0:
                os.close(go_w)
                os.close(rep_r)
                child_main(db, Row, n_child, go_r, rep_w, order, bool(case.get('child_fault')), second,
                           bool(case.get('grandchild')), case.get('child_disconnect'))
            os.close(go_r)
            os.close(rep_w)
            return pid

        reports = LineReader(rep_r)

        def collect(pid):
            rep = None
            while True:
                line = reports.readline(30)
                if line is None:
                    break
                d = json.loads(line)
                if d.get('final'):
                    rep = d
                    break
            try:
                os.waitpid(pid, 0)
            except ChildProcessError:
                pass
            return rep

        def release_child(n=1):
            for _ in range(n):
                try:
                    _send(go_w, {'go': 1})
                except OSError:
                    pass

        def parent_more(tagbase):
            """the parent keeps using the database after the fork"""
            out = {}
            try:
                with db_session:
                    out['read'] = sorted(select(r.tag for r in Row)[:])
                with db_session:
                    Row(tag=tagbase, who='parent')
                parent_rows.append(tagbase)
                if second is not None:
                    with db_session:
                        Row2(tag=tagbase, who='parent')
                    parent_rows2.append(tagbase)
            except BaseException as e:
                out['error'] = '%s: %s' % (type(e).__name__, str(e)[:160])
            return out

        rep = None
        if second is not None and position != 'no_connection':
            # the second database has a pooled connection of this thread when the process forks
            with db_session:
                select(r for r in Row2)[:]
        if position == 'no_connection':
            db.disconnect()
            pid = do_fork()
        elif position == 'pooled_idle':
            with db_session:
                select(r for r in Row)[:]
            pid = do_fork()
        elif position == 'after_disconnect':
            with db_session:
                select(r for r in Row)[:]
            db.disconnect()
            pid = do_fork()
        else:
            kw = {'immediate': True} if position == 'in_immediate_session' else {}
            pid = None
            try:
                with db_session(**kw):
                    rows = select(r for r in Row)[:]
                    if position in ('in_write_transaction', 'after_flush_uncommitted'):
                        Row(tag='p_in', who='parent')
                        flush()
                    if position == 'after_commit_in_session':
                        Row(tag='p_in', who='parent')
                        commit()
                        parent_rows.append('p_in')
                    pid = do_fork()
                    if order == 'child_first':
                        release_child(n_child)
                        rep = collect(pid)
                    # the parent goes on inside its session
                    Row(tag='p_after_fork', who='parent')
                parent_rows.append('p_after_fork')
                if position in ('in_write_transaction', 'after_flush_uncommitted'):
                    parent_rows.append('p_in')
            except BaseException as e:
                state['parent_session_error'] = '%s: %s' % (type(e).__name__, str(e)[:200])
        if rep is None:
            if order == 'child_first':
                release_child(n_child)
                rep = collect(pid)
                state['parent_after'] = parent_more('p_more')
            elif order == 'parent_first':
                state['parent_after'] = parent_more('p_more')
                release_child(n_child)
                rep = collect(pid)
            else:
                outs = []
                for i in range(n_child):
                    release_child(1)
                    reports.readline(20)
                    outs.append(parent_more('p_alt%d' % i))
                state['parent_after'] = outs
                rep = collect(pid)
        else:
            state['parent_after'] = parent_more('p_more')
        state['report'] = rep
        state['parent_rows'] = parent_rows
        try:
            db.disconnect()
            if second is not None:
                second[0].disconnect()
        except BaseException:
            pass

    if case.get('thread'):
        t = threading.Thread(target=scenario, name='forker')
        t.start()
        t.join(60)
        if t.is_alive():
            return {'harness_error': 'fork scenario thread hung'}
    else:
        scenario()
    c.phase = 'post'
    rep = state.get('report')
    if rep is None:
        return {'harness_error': 'no report from the forked child (%r)' % (state,)}
    if rep.get('crash'):
        return {'harness_error': 'child harness crashed: %s' % rep['crash']}
    # ---- oracle
    in_session = position in ('in_read_session', 'in_write_transaction', 'after_flush_uncommitted',
                              'after_commit_in_session', 'in_immediate_session')
    inherited_session = False
    if rep['foreign_pid_use']:
        u = rep['foreign_pid_use'][0]
        detail = ('the forked child issued %s %r on connection #%d, which the parent opened (%d such calls; position %s, '
                  'order %s)' % (u['kind'], u.get('sql'), u['conn'], len(rep['foreign_pid_use']), position, order))
        if in_session:
            # one defect whatever the order / thread: the child inherits the forking thread's open session
            # (core.local survives fork) and its "new" sessions nest inside it
            inherited_session = True
            key = 'C36|child-used-parent-connection|fork-inside-open-session'
            violations.append({'prop': 'C36', 'key': key, 'detail': detail})
        else:
            viol('child-used-parent-connection', detail)
    if inherited_session:
        # rows the child "wrote" inside the inherited session are never committed, the parent may meet its own
        # connection in a state the child left: consequences of the same defect, not judged separately
        digest = hsh([shape, 'inherited-session'])
        return {'violations': violations, 'fired': [], 'digest': digest,
                'sig': hsh([position, order, n_child, bool(case.get('thread'))]), 'nontrivial': True,
                'probes': {'fork_inside_open_session_leaked': 1},
                'sample': {'position': position, 'order': order, 'child_sessions': rep['sessions']}}
    child_wrote = []
    child_wrote2 = []
    gc = rep.get('grandchild')
    if gc is not None:
        if gc.get('foreign_pid_use'):
            u = gc['foreign_pid_use'][0]
            viol('grandchild-used-child-connection' if n_child else 'grandchild-used-first-process-connection',
                 'the grandchild issued %s %r on connection #%d, which %s opened'
                 % (u['kind'], u.get('sql'), u['conn'], 'the child (its parent)' if n_child else
                    'the first process opened (the child in between never connected)'))
        if 'error' in gc and 'database is locked' not in gc['error']:
            viol('grandchild-session-failed', 'grandchild: %s' % gc['error'])
        if 'wrote' in gc:
            child_wrote.append(gc['wrote'])
        if 'wrote2' in gc:
            child_wrote2.append(gc['wrote2'])
        if rep.get('wrote_after_grandchild'):
            child_wrote.append('c_after_grandchild')
        elif 'database is locked' not in rep.get('after_grandchild_error', 'database is locked'):
            viol('child-cannot-continue', 'child session after it forked failed: %s' % rep['after_grandchild_error'])
    for i, s in enumerate(rep['sessions']):
        if 'wrote' in s:
            child_wrote.append(s['wrote'])
        if 'wrote2' in s:
            child_wrote2.append(s['wrote2'])
        if 'write_error2' in s and 'database is locked' not in s['write_error2']:
            viol('child-session-failed', 'child session %d on the second database: %s' % (i, s['write_error2']))
        for k in ('read_error', 'write_error'):
            if k in s and 'database is locked' not in s[k]:
                if case.get('child_fault') and 'unable to open database file' in s[k]:
                    continue      # the injected connect failure itself
                viol('child-session-failed', 'child session %d %s: %s' % (i, k, s[k]))
    if state.get('parent_session_error') and 'database is locked' not in state['parent_session_error']:
        viol('parent-session-failed', 'the parent session that forked failed: %s' % state['parent_session_error'])
    pa = state.get('parent_after')
    for o in (pa if isinstance(pa, list) else [pa]):
        if o and 'error' in o and 'database is locked' not in o['error']:
            viol('parent-cannot-continue', 'parent session after the fork failed: %s' % o['error'])
    con = simdb.raw_connect(path)
    try:
        got = sorted(x[0] for x in con.execute('select tag from Row').fetchall())
    finally:
        con.close()
    exp = sorted(set(['seed0', 'seed1'] + state['parent_rows'] + child_wrote))
    if got != exp:
        viol('rows-lost-or-unexpected', 'rows %r, expected %r (parent committed %r, child reported %r)'
             % (got, exp, state['parent_rows'], child_wrote))
    got2 = None
    if second is not None:
        con = simdb.raw_connect(os.path.join(scratch, 'fork2.sqlite'))
        try:
            got2 = sorted(x[0] for x in con.execute('select tag from Row').fetchall())
        finally:
            con.close()
        exp2 = sorted(set(['seed0'] + state['parent_rows2'] + child_wrote2))
        if got2 != exp2:
            viol('rows-lost-or-unexpected', 'second database: rows %r, expected %r' % (got2, exp2))
    digest = hsh([shape, got, got2, [sorted(s.keys()) for s in rep['sessions']], bool(rep['foreign_pid_use'])])
    return {
        'violations': violations, 'fired': [], 'digest': digest,
        'sig': hsh([position, order, n_child, bool(case.get('thread')), bool(case.get('second_db')),
                    bool(case.get('grandchild')), bool(case.get('child_fault')), case.get('child_disconnect')]),
        'nontrivial': True,
        'probes': {'child_opened_own_connection': int(rep['new_connections'] > 0),
                   'child_sessions_ok': sum(1 for s in rep['sessions'] if 'wrote' in s),
                   'lock_contention_between_processes': sum(1 for s in rep['sessions'] if 'database is locked' in str(s))},
        'sample': {'position': position, 'order': order, 'child_sessions': rep['sessions'], 'rows': got},
    }
