"""Operation interpreter of the SEQ engine (see seq.py)."""
import traceback

from pony import orm
from pony.orm import core
from pony.orm import db_session, select, commit, rollback, flush

from .. import simdb, whitebox
from ..harness import hsh
from ..seqschema import pool
from ..prng import Rng
from ..sessmodel import Refuse, MObj
from . import seq as S
from . import seq_detached


def jcopy(v):
    """the model keeps its own copy of mutable (Json) values: Pony wraps and tracks the object it is given"""
    import copy
    return copy.deepcopy(v) if isinstance(v, (dict, list)) else v


class CarriedOn(Exception):
    """a session that went on after a caught database error has been rolled back"""


class DupInfo(str):
    """description of a key conflict, with the model object that holds the key"""
    ent = attrs = vals = other = mid = None

MOD_OPS = ('new', 'set', 'setmany', 'rel', 'add', 'remove', 'clear', 'assign', 'create_in', 'del',
           'set_none', 'setpk')
READ_OPS = ('r_attr', 'r_pk', 'r_get', 'r_exists', 'r_select', 'r_count', 'r_aggr', 'r_coll', 'r_todict', 'r_rel')
CTL_OPS = ('flush', 'commit', 'rollback')


class Interp(seq_detached.DetachedMixin, S.SeqRun):
    last_handles = {}
    last_view = None

    # ------------------------------------------------------------------ value helpers
    def scalar_kwargs(self, e, b, c, with_optional=True):
        kw = {}
        for i, a in enumerate(e.scalars()):
            if a.auto:
                continue
            m = S.mix(b, c, i)
            p = pool(e.name, a.name)
            if a.required:
                if 'default' in a.opts and m % 3 == 0:
                    continue
                kw[a.name] = p[(m >> 3) % len(p)]
            elif with_optional and m % 2 == 0:
                kw[a.name] = p[(m >> 3) % len(p)]
        return kw

    def default_vals(self, e):
        out = {}
        for a in e.scalars():
            out[a.name] = a.default
        return out

    def ent_order(self):
        return S.ENT_ORDER + (('Profile', 'Profile') if 'Profile' in self.schema.by_name else ()) + \
            (('Student', 'Student', 'Student') if 'Student' in self.schema.by_name else ())

    # ------------------------------------------------------------------ modifications
    def op_new(self, a, b, c, via_collection=None, same_pk_as=None):
        order = self.ent_order()
        e = self.schema.by_name[order[a % len(order)]]
        kw = self.scalar_kwargs(e, b, c)
        if same_pk_as is not None:
            # a constructor call under a primary key that an object of the session holds (refused by the rule)
            e = self.schema.by_name[same_pk_as.ent]
            kw = self.scalar_kwargs(e, b, c)
            for x in e.pk_attrs:
                kw[x.name] = same_pk_as.vals.get(x.name)
        rel_mids = {}
        for i, ra in enumerate(e.to_ones()):
            m = S.mix(c, b, 100 + i)
            tgt = self.pick(m >> 4, ra.rel)
            if ra.required or m % 3 == 0:
                if tgt is None:
                    if ra.required:
                        return None
                    continue
                rel_mids[ra.name] = tgt.mid
        set_mids = {}
        for i, sa in enumerate(e.sets()):
            m = S.mix(b, c, 200 + i)
            if m % 5 == 0:
                items = [o.mid for o in self.live_sorted(sa.rel)]
                if items:
                    k = 1 + (m >> 5) % 2
                    set_mids[sa.name] = sorted(set(items[(m >> 7) % len(items)] for _ in range(1)) |
                                               set([items[(m >> 11) % len(items)]] if k > 1 else []))
        return self._create(e, kw, rel_mids, set_mids)

    def _create(self, e, kw, rel_mids, set_mids, via=None, raw_rel=None):
        P = self.E[e.name]
        desc = 'new %s(%s)' % (e.name, ', '.join('%s=%r' % kv for kv in sorted(
            list(kw.items()) + [(k, '#%d' % v) for k, v in rel_mids.items()] +
            [(k, ['#%d' % x for x in v]) for k, v in set_mids.items()])))
        mid = self.new_mid()
        box = {}

        def pony():
            args = dict(kw)
            for k, m in rel_mids.items():
                if k == raw_rel:
                    pk = self.view.objs[m].pk
                    args[k] = pk[0] if len(pk) == 1 else pk     # raw primary key value instead of the object
                else:
                    args[k] = self.handle(m)
            for k, ms in set_mids.items():
                args[k] = [self.handle(m) for m in ms]
            if via is None:
                obj = P(**args)
            else:
                owner, sa = via
                obj = getattr(self.handle(owner), sa.name).create(**args)
            box['obj'] = obj
            return obj

        def model(v):
            mo = v.objs[mid] = MObj(mid, e.name)
            mo.vals = self.default_vals(e)
            mo.vals.update(jcopy(kw))
            if not e.auto_pk:
                pkv = ()
                for x in e.pk_attrs:
                    if x.is_rel:
                        # a reference in the primary key: the key is the target's key (known once that is stored)
                        t = rel_mids.get(x.name)
                        if t is None and via is not None and via[1].reverse is x:
                            t = via[0]
                        tp = v.objs[t].pk if t is not None else None
                        pkv = None if (pkv is None or tp is None) else pkv + tuple(tp)
                    else:
                        val = mo.vals.get(x.name)
                        pkv = None if (pkv is None or val is None) else pkv + (val,)
                if pkv is not None:
                    mo.pk = pkv
            for ra in e.to_ones():
                if ra.name in rel_mids:
                    v.set_to_one(mid, ra, rel_mids[ra.name])
                elif via is not None and via[1].reverse is ra:
                    v.set_to_one(mid, ra, via[0])
            for sa in e.sets():
                if sa.name in set_mids:
                    v.coll_assign(mid, sa, set_mids[sa.name])
                elif via is not None and via[1].reverse is sa:
                    v.coll_add(mid, sa, [via[0]])

        dup = self._would_duplicate(e, None, dict(self.default_vals(e), **kw))
        st, res = self.modify(desc, pony, model, must_fail=dup, mids=list(rel_mids.values()) + [m for ms in set_mids.values() for m in ms] + ([via[0]] if via else []))
        if st == 'ok':
            self.register(mid, box['obj'])
            self.last_created = mid
            self._note_keys_taken(e, self.view.objs[mid])
            if e.auto_pk:
                self.probe('created_auto_pk')
        elif dup and not isinstance(res, Exception):
            pass
        return st

    def _would_duplicate(self, e, mid, vals):
        """R3: a duplicate among objects the session view knows (the model knows the whole database here)"""
        keys = []
        if not e.auto_pk and not any(a.is_rel for a in e.pk_attrs):
            keys.append(tuple(a.name for a in e.pk_attrs))
        keys += [(a.name,) for a in e.attrs if a.opts.get('unique') and not a.is_rel and not a.is_pk]
        keys += list(e.composite_keys)
        for k in keys:
            vs = tuple(vals.get(n) for n in k)
            owner = e.key_owner(k)      # a key declared by the base class ranges over the whole hierarchy
            other = self.view.key_conflict(owner, k, vs, but=mid)
            if other is not None:
                d = DupInfo('%s(%s)=%r' % (owner, ','.join(k), vs))
                d.ent, d.attrs, d.vals, d.other, d.mid = owner, k, vs, other, mid
                return d
        return None

    def _note_keys_taken(self, e, mo):
        for k in self._key_sets(e):
            vs = tuple(mo.vals.get(n) for n in k)
            if all(x is not None for x in vs):
                kk = (e.key_owner(k), k, vs)
                if kk in self.released_keys:
                    self.session_clean = False
                self.taken_keys.add(kk)

    def _note_keys_released(self, e, vals):
        for k in self._key_sets(e):
            vs = tuple(vals.get(n) for n in k)
            if all(x is not None for x in vs):
                self.released_keys.add((e.key_owner(k), k, vs))

    def _key_sets(self, e):
        ks = [tuple(a.name for a in e.pk_attrs)] if (not e.auto_pk and not any(a.is_rel for a in e.pk_attrs)) else []
        ks += [(a.name,) for a in e.attrs if a.opts.get('unique') and not a.is_rel and not a.is_pk]
        ks += list(e.composite_keys)
        return ks

    def op_set(self, a, b, c, none=False):
        mo = self.pick(a)
        if mo is None:
            return None
        e = self.schema.by_name[mo.ent]
        attrs = [x for x in e.scalars() if not x.is_pk]
        if none:
            attrs = [x for x in attrs if x.required]
        if not attrs:
            return None
        at = attrs[b % len(attrs)]
        p = pool(e.name, at.name)
        val = None if none else p[c % len(p)]
        desc = 'set %s#%d.%s=%r' % (mo.ent, mo.mid, at.name, val)
        old_vals = dict(mo.vals)

        def pony():
            setattr(self.handle(mo.mid), at.name, val)

        def model(v):
            if none:
                raise Refuse('None assigned to required %r' % at)
            v.objs[mo.mid].vals[at.name] = jcopy(val)

        newvals = dict(mo.vals)
        newvals[at.name] = jcopy(val)
        dup = self._would_duplicate(e, mo.mid, newvals) if not none else None
        st, res = self.modify(desc, pony, model, must_fail=dup, mids=[mo.mid])
        if st == 'ok':
            self._note_keys_released(e, old_vals)
            self._note_keys_taken(e, self.view.objs[mo.mid])
        return st

    def op_setpk(self, a, b, c):
        mo = self.pick(a)
        if mo is None or mo.pk is None:
            return None
        e = self.schema.by_name[mo.ent]
        spk = [x for x in e.pk_attrs if not x.is_rel]
        if not spk:
            return None
        pa = spk[b % len(spk)]
        same = c % 3 == 0
        cur = mo.vals.get(pa.name)
        if pa.auto:
            val = cur if same else (cur or 0) + 1000
        else:
            p = pool(e.name, pa.name)
            val = cur if same else [x for x in p if x != cur][c % (len(p) - 1)]
        desc = 'setpk %s#%d.%s=%r' % (mo.ent, mo.mid, pa.name, val)

        def pony():
            setattr(self.handle(mo.mid), pa.name, val)

        def model(v):
            if val != cur:
                raise Refuse('primary key cannot be changed')

        return self.modify(desc, pony, model, mids=[mo.mid])[0]

    def op_setmany(self, a, b, c):
        mo = self.pick(a)
        if mo is None:
            return None
        e = self.schema.by_name[mo.ent]
        attrs = [x for x in e.scalars() if not x.is_pk]
        if len(attrs) < 2:
            return None
        a1 = attrs[b % len(attrs)]
        a2 = attrs[(b // 7 + 1 + b) % len(attrs)]
        if a2 is a1:
            a2 = attrs[(attrs.index(a1) + 1) % len(attrs)]
        p1, p2 = pool(e.name, a1.name), pool(e.name, a2.name)
        kw = {a1.name: p1[c % len(p1)], a2.name: p2[(c >> 3) % len(p2)]}
        desc = 'setmany %s#%d.set(%s)' % (mo.ent, mo.mid, ', '.join('%s=%r' % kv for kv in sorted(kw.items())))
        old_vals = dict(mo.vals)

        def pony():
            self.handle(mo.mid).set(**kw)

        def model(v):
            v.objs[mo.mid].vals.update(jcopy(kw))

        dup = self._would_duplicate(e, mo.mid, dict(mo.vals, **kw))
        st, res = self.modify(desc, pony, model, must_fail=dup, mids=[mo.mid])
        if st == 'ok':
            self._note_keys_released(e, old_vals)
            self._note_keys_taken(e, self.view.objs[mo.mid])
        return st

    def op_setmix(self, a, b, c):
        """obj.set(...) with plain values, a reference and one or two collections in one call: either every
        part is applied or (a later part is refused) none of them"""
        mo = self.pick(a)
        if mo is None:
            return None
        r = Rng(0, 'setmix', a, b, c)      # a pure function of the operation's arguments (shrinking keeps it)

        def can_refuse(o):
            return [sa for sa in self.schema.by_name[o.ent].sets() if not sa.reverse.is_set and sa.reverse.required
                    and not sa.cascade and self.view.partners(sa, o.mid)]
        hot = [o for o in self.live_sorted() if can_refuse(o)]
        if hot and r.chance(0.6):
            # prefer an object one of whose collections refuses to shrink: a compound call on it can fail late
            mo = hot[r.below(len(hot))]
        e = self.schema.by_name[mo.ent]
        sets = e.sets()
        if not sets:
            return None
        touched = None
        if r.chance(0.6):
            alive, touched = self.pending_prelude(mo, r)
            if not alive:
                return None
            mo = self.view.objs[mo.mid]     # the prelude replaced the view: its values may have changed
        parts = []      # (kind, attr, value) in keyword order
        scal = [x for x in e.scalars() if not x.is_pk]
        mode = r.below(4)       # 0: collections only, 1: + plain values, 2: + reference, 3: everything
        for at in r.sample(scal, min(len(scal), 1 + r.below(2)) if mode in (1, 3) else 0):
            p = pool(e.name, at.name)
            parts.append(('val', at, p[r.below(len(p))]))
        tos = e.to_ones()
        if tos and mode in (2, 3):
            ra = tos[r.below(len(tos))]
            tgt = None if r.chance(0.25) else self.pick(r.below(1000), ra.rel)
            tmid = tgt.mid if tgt is not None and tgt.mid != mo.mid else None
            parts.append(('one', ra, tmid))
        chosen = r.sample(sets, min(len(sets), 1 + r.below(2)))
        if touched is not None and touched not in chosen and r.chance(0.8):
            chosen.insert(0, touched)       # the collection that has the pending change is assigned as well
        for sa in can_refuse(mo):
            if sa not in chosen and r.chance(0.8):
                chosen.append(sa)
        for sa in chosen:
            cands = [o.mid for o in self.live_sorted(sa.rel) if o.mid != mo.mid]
            cur = sorted(self.view.partners(sa, mo.mid))
            items = set(x for x in cur if r.chance(0.5))
            for i in range(r.below(3)):
                if cands:
                    items.add(cands[r.below(len(cands))])
            parts.append(('set', sa, sorted(items)))
        if r.chance(0.5):
            r.shuffle(parts)
        refusing = [p for p in parts if p[0] == 'set' and not p[1].reverse.is_set and p[1].reverse.required
                    and not p[1].cascade and len(p[2]) < len(self.view.partners(p[1], mo.mid))]
        if refusing and r.chance(0.7):
            # the part that will be refused comes last: everything before it has to be taken back
            parts.remove(refusing[0])
            parts.append(refusing[0])

        def show(kind, v):
            return repr(v) if kind == 'val' else ('#%s' % v if kind == 'one' else repr(['#%d' % i for i in v]))
        desc = 'setmix %s#%d.set(%s)' % (mo.ent, mo.mid, ', '.join('%s=%s' % (at.name, show(k, v)) for k, at, v in parts))
        old_vals = dict(mo.vals)
        mids = [mo.mid]
        for k, at, v in parts:
            if k == 'one' and v:
                mids.append(v)
            elif k == 'set':
                mids.extend(v)

        def pony():
            kw = {}
            for k, at, v in parts:
                if k == 'val':
                    kw[at.name] = v
                elif k == 'one':
                    kw[at.name] = self.handle(v) if v else None
                else:
                    kw[at.name] = [self.handle(i) for i in v]
            self.handle(mo.mid).set(**kw)

        def model(v):
            # Entity.set applies plain values and references first, collections afterwards, each group in keyword order
            for k, at, val in parts:
                if k == 'val':
                    v.objs[mo.mid].vals[at.name] = jcopy(val)
            for k, at, val in parts:
                if k == 'one':
                    v.set_to_one(mo.mid, at, val)
            for k, at, val in parts:
                if k == 'set':
                    v.coll_assign(mo.mid, at, val)

        newvals = dict(mo.vals)
        for k, at, v in parts:
            if k == 'val':
                newvals[at.name] = v
        dup = self._would_duplicate(e, mo.mid, newvals)
        st, res = self.modify(desc, pony, model, must_fail=dup, mids=mids)
        if st == 'ok':
            self._note_keys_released(e, old_vals)
            self._note_keys_taken(e, self.view.objs[mo.mid])
        return st

    def create_fresh(self, ent, r, depth=0):
        """create an object of the entity together with new objects for (most of) the references it requires;
        returns its model id or None"""
        e = self.schema.by_name[ent]
        kw = self.scalar_kwargs(e, r.below(1000), r.below(1000))
        rel_mids = {}
        for ra in e.to_ones():
            if not ra.required:
                continue
            t = None
            if depth < 2 and r.chance(0.75):
                t = self.create_fresh(ra.rel, r, depth + 1)
            if t is None:
                tgt = self.pick(r.below(1000), ra.rel)
                if tgt is None:
                    return None
                t = tgt.mid
            rel_mids[ra.name] = t
        self.last_created = None
        st = self._create(e, kw, rel_mids, {})
        return self.last_created if st == 'ok' else None

    def op_late_link(self, a, b, c):
        """An object that is already waiting to be saved gets a reference to an object created after it, which in
        turn depends on objects created with it: the flush has to save them in dependency order, not in the order
        they were queued (C16)"""
        mo = self.pick(a)
        if mo is None:
            return None
        e = self.schema.by_name[mo.ent]
        tos = [ra for ra in e.to_ones() if not ra.is_pk and getattr(self.E[e.name], ra.name).columns]
        if not tos:
            return None
        ra = tos[b % len(tos)]
        r = Rng(0, 'late_link', a, b, c)
        self.handle_or_poison(mo.mid)
        if r.chance(0.7):
            self.op_set(a, r.below(1000), r.below(1000))        # same 'a': the same object; queues it for saving
        tmid = self.create_fresh(ra.rel, r)
        if tmid is None or self.view.objs[mo.mid].deleted:
            return None
        desc = 'rel %s#%d.%s=#%d' % (mo.ent, mo.mid, ra.name, tmid)

        def pony():
            setattr(self.handle(mo.mid), ra.name, self.handle(tmid))

        def model(v):
            v.set_to_one(mo.mid, ra, tmid)

        return self.modify(desc, pony, model, mids=[mo.mid, tmid])[0]

    def op_rel(self, a, b, c):
        mo = self.pick(a)
        if mo is None:
            return None
        e = self.schema.by_name[mo.ent]
        tos = e.to_ones()
        if not tos:
            return None
        ra = tos[b % len(tos)]
        tgt = None if c % 4 == 0 else self.pick(c >> 2, ra.rel)
        tmid = tgt.mid if tgt is not None else None
        if tmid == mo.mid and not ra.reverse.is_set:
            tmid = None       # no one-to-one self-reference; p.boss = p (many-to-one) is legal API use and kept:
                              # a new object that is its own boss is a cycle of one that no INSERT order resolves
        desc = 'rel %s#%d.%s=%s' % (mo.ent, mo.mid, ra.name, '#%d' % tmid if tmid else None)

        def pony():
            setattr(self.handle(mo.mid), ra.name, self.handle(tmid) if tmid else None)

        def model(v):
            v.set_to_one(mo.mid, ra, tmid)

        return self.modify(desc, pony, model, mids=[mo.mid] + ([tmid] if tmid else []))[0]

    def op_coll(self, kind, a, b, c):
        owners = [o for o in self.live_sorted() if self.schema.by_name[o.ent].sets()]
        if not owners:
            return None
        mo = owners[a % len(owners)]
        e = self.schema.by_name[mo.ent]
        sa = e.sets()[b % len(e.sets())]
        cands = [o.mid for o in self.live_sorted(sa.rel)]
        if sa.rel == mo.ent or self.view._is_sub(mo.ent, sa.rel):
            # an object is never linked to itself (observed on the unchanged tree: p.friends.add(p) double-counts
            # the cached count, and deleting an object that is its own boss queues its DELETE twice; exotic
            # self-links are kept out of the workload, see DESIGN 7)
            cands = [i for i in cands if i != mo.mid]
        cur = sorted(self.view.partners(sa, mo.mid))
        if kind == 'add':
            if not cands:
                return None
            items = sorted(set([cands[c % len(cands)]] + ([cands[(c >> 4) % len(cands)]] if c % 3 == 0 else [])))
        elif kind == 'remove':
            src = cur if (cur and c % 4) else cands
            if not src:
                return None
            items = [src[c % len(src)]]
        elif kind == 'clear':
            items = []
        else:
            k = c % 3
            items = sorted(set(cands[(c >> i) % len(cands)] for i in range(k))) if cands else []
        desc = '%s %s#%d.%s %s' % (kind, mo.ent, mo.mid, sa.name, ['#%d' % i for i in items])

        def pony():
            coll = getattr(self.handle(mo.mid), sa.name)
            hs = [self.handle(i) for i in items]
            if kind == 'add':
                coll.add(hs if len(hs) != 1 or c % 2 else hs[0])
            elif kind == 'remove':
                coll.remove(hs if c % 2 else hs[0])
            elif kind == 'clear':
                coll.clear()
            else:
                setattr(self.handle(mo.mid), sa.name, hs)

        def model(v):
            if kind == 'add':
                v.coll_add(mo.mid, sa, items)
            elif kind == 'remove':
                v.coll_remove(mo.mid, sa, items)
            elif kind == 'clear':
                v.coll_assign(mo.mid, sa, [])
            else:
                v.coll_assign(mo.mid, sa, items)

        return self.modify(desc, pony, model, mids=[mo.mid] + list(items))[0]

    def op_seq_in(self, a, b, c):
        """membership test, then add (or remove), then the same test again, flush, and once more: the
        answers must follow the session view whether or not the collection is fully loaded"""
        owners = [o for o in self.live_sorted() if self.schema.by_name[o.ent].sets()]
        if not owners:
            return None
        mo = owners[a % len(owners)]
        e = self.schema.by_name[mo.ent]
        sa = e.sets()[b % len(e.sets())]
        cands = [o.mid for o in self.live_sorted(sa.rel) if o.mid != mo.mid]
        if not cands:
            return None
        it = cands[c % len(cands)]
        base = 'r_coll %s#%d.%s contains #%d' % (mo.ent, mo.mid, sa.name, it)

        def contains(tag):
            self.audit_membership(mo, sa, it, tag)

        contains(' (before)')
        present = it in self.view.partners(sa, mo.mid)
        kind = 'remove' if present else 'add'
        desc = '%s %s#%d.%s [\'#%d\']' % (kind, mo.ent, mo.mid, sa.name, it)

        def pony():
            coll = getattr(self.handle(mo.mid), sa.name)
            (coll.remove if present else coll.add)(self.handle(it))

        def model(v):
            (v.coll_remove if present else v.coll_add)(mo.mid, sa, [it])

        st = self.modify(desc, pony, model, mids=[mo.mid, it])[0]
        if self.view.objs[it].deleted or self.view.objs[mo.mid].deleted:
            return st        # a cascading remove deleted the item: membership of a deleted object is not asked
        contains(' (after %s)' % kind)
        if (c >> 5) % 2:
            self.op_flush()
            contains(' (after %s and flush)' % kind)
        return st

    def audit_membership(self, mo, sa, it, tag):
        """`item in owner.collection` against the session view and - C12 through the public API - against what
        the other end says about the same link"""
        base = 'r_coll %s#%d.%s contains #%d' % (mo.ent, mo.mid, sa.name, it)
        if self.knobs.get('hook_mode') in ('modify', 'create', 'link', 'after_edit'):
            self.op_flush()
        h = self.handle_or_poison(mo.mid)
        ih = self.handle_or_poison(it)
        ok, got = self.read(base + tag, lambda: ih in getattr(h, sa.name))
        if ok:
            self.expect(base + tag, got, it in self.view.partners(sa, mo.mid))
            rev = sa.reverse
            ask = (lambda: h in getattr(ih, rev.name)) if rev.is_set else (lambda: getattr(ih, rev.name) is h)
            ok2, other = self.read(base + tag + ' [reverse end]', ask, exp_exc=core.UnrepeatableReadError)
            if not ok2 and not self.fault_fired_in_session:
                # the other end complains about a concurrent change nobody made; ask once more, as a program that
                # catches the error would: what it answers then is that end's opinion about the link
                self.viol('C10', 'read-raised-unrepeatable', 'r_coll',
                          '%s%s [reverse end] raised UnrepeatableReadError in a history with a single writer: %s'
                          % (base, tag, str(other)[:200]))
                ok2, other = self.read(base + tag + ' [reverse end, second attempt]', ask)
            if ok2 and bool(other) != bool(got):
                self.viol('C12', 'ends-disagree-through-api', '%s.%s' % (mo.ent, sa.name),
                          '%s%s: %s#%d.%s says %r but the reverse end %s#%d.%s says %r'
                          % (base, tag, mo.ent, mo.mid, sa.name, got, sa.rel, it, rev.name, other))

    def op_seq_probe(self, a, b, c):
        """change one link of a collection, ask the collection a question (emptiness, size, content) while the
        change is still pending, then take the change back: the answers and what is finally stored must follow
        the session view whether or not the collection was loaded"""
        owners = [o for o in self.live_sorted() if self.schema.by_name[o.ent].sets()]
        if not owners:
            return None
        mo = owners[a % len(owners)]
        e = self.schema.by_name[mo.ent]
        sa = e.sets()[b % len(e.sets())]
        cands = [o.mid for o in self.live_sorted(sa.rel) if o.mid != mo.mid]
        cur = sorted(self.view.partners(sa, mo.mid))
        src = cur if (cur and c % 3) else cands
        if not src:
            return None
        it = src[(c >> 9) % len(src)]

        def step(kind):
            desc = '%s %s#%d.%s [\'#%d\']' % (kind, mo.ent, mo.mid, sa.name, it)

            def pony():
                coll = getattr(self.handle(mo.mid), sa.name)
                (coll.remove if kind == 'remove' else coll.add)(self.handle(it))

            def model(v):
                (v.coll_remove if kind == 'remove' else v.coll_add)(mo.mid, sa, [it])
            return self.modify(desc, pony, model, mids=[mo.mid, it])[0]

        first = 'remove' if it in cur else 'add'
        st = step(first)
        if self.view.objs[it].deleted or self.view.objs[mo.mid].deleted:
            return st
        self._probe_coll(mo, sa, (c >> 2) % 6, c >> 5, tag=' [after pending %s of #%d]' % (first, it))
        if (c >> 6) % 3:
            step('add' if first == 'remove' else 'remove')
            if self.view.objs[it].deleted or self.view.objs[mo.mid].deleted:
                return st
            if (c >> 8) % 2:
                self._probe_coll(mo, sa, (c >> 4) % 6, c >> 3, tag=' [after taking it back]')
        return st

    def op_new_rawfk(self, a, b, c):
        """create a dependent object passing a raw primary key value for its owner: the key of a stored row
        (legitimate) or the key the database is about to generate for a not yet inserted object (must be
        refused at flush at the latest; the identity map must never hold two objects for one key)"""
        ents = [e for e in self.schema.entities if any(ra.required and self.schema.by_name[ra.rel].auto_pk
                                                       for ra in e.to_ones())]
        if not ents:
            return None
        e = ents[a % len(ents)]
        ra = [x for x in e.to_ones() if x.required and self.schema.by_name[x.rel].auto_pk][0]
        stored = [o for o in self.live_sorted(ra.rel) if o.stored and o.pk is not None]
        self.refresh_pks()      # keys handed out by a flush Pony made on its own (before a query) count as known
        known = [o.pk[0] for o in self.view.objs.values()
                 if (o.ent == ra.rel or self.view._is_sub(o.ent, ra.rel)) and o.pk is not None]
        cache = self.cache()
        if cache is not None:
            # ... and so does every key in the identity map (e.g. of an object deleted in this session)
            R = self.E[ra.rel]
            known += [k for k in cache.indexes.get(R._pk_attrs_, {}) if isinstance(k, int)]
        kw = self.scalar_kwargs(e, b, c)
        P = self.E[e.name]
        if stored and c % 2 == 0:
            tgt = stored[(c >> 2) % len(stored)]
            return self._create(e, kw, {ra.name: tgt.mid}, {}, raw_rel=ra.name)
        guess = (max(known) if known else 0) + 1
        desc = 'new %s(%s, %s=<raw pk %d of no stored row>)' % (e.name, ', '.join('%s=%r' % kv for kv in sorted(kw.items())),
                                                               ra.name, guess)
        self.cur_op_desc = desc
        try:
            P(**dict(kw, **{ra.name: guess}))
        except Exception as ex:
            self.trace.append('%s.%s FAIL %s -> %s' % (self.sess_index, self.op_index, desc, type(ex).__name__))
            # even the refused call may have put a placeholder object for the guessed key into the identity
            # map (adversarial input): the model cannot follow the session any further
            raise S.Poisoned()
        self.trace.append('%s.%s OK   %s' % (self.sess_index, self.op_index, desc))
        self.probe('raw_fk_to_missing_row_accepted')
        try:
            flush()
        except Exception as ex:
            self.probe('raw_fk_to_missing_row_refused_at_flush')
            raise S.Poisoned()
        # the flush went through: the reference must now denote exactly one live object
        self.after_op()
        self.probe('raw_fk_to_missing_row_flushed')
        raise S.Poisoned()

    def op_raw_log(self, a, b, c):
        """raw SQL through the session: db.insert / db.execute are part of the session's transaction"""
        self.raw_counter = getattr(self, 'raw_counter', 0) + 1
        msg = 'raw%d_%d' % (self.sess_index, self.raw_counter)
        k = c % 3
        if k == 2:
            # raw UPDATE of a stored row the session has not loaded
            rows = [o for o in self.live_sorted('Log') if o.stored and o.pk is not None and o.mid not in self.handles]
            if rows:
                mo = rows[a % len(rows)]
                rid = mo.pk[0]
                desc = 'raw_log UPDATE Log SET msg=%r WHERE id=%d' % (msg, rid)
                ok, _ = self.read(desc, lambda: self.db.execute('UPDATE Log SET msg = $msg WHERE id = $rid',
                                                                {'msg': msg, 'rid': rid}, {}))
                self.view.objs[mo.mid].vals['msg'] = msg
                self.trace.append('%s.%s OK   %s' % (self.sess_index, self.op_index, desc))
                self.probe('raw_sql_statement')
                return
            k = 0
        if k == 0:
            desc = 'raw_log db.insert(Log, msg=%r)' % msg
            ok, rid = self.read(desc, lambda: self.db.insert('Log', msg=msg))
        else:
            desc = 'raw_log db.execute(INSERT INTO Log ... %r)' % msg
            ok, rid = self.read(desc, lambda: self.db.execute('INSERT INTO Log (msg) VALUES ($msg)',
                                                              {'msg': msg}, {}).lastrowid)
        mid = self.new_mid()
        mo = MObj(mid, 'Log')
        mo.vals = {'id': rid, 'msg': msg}
        mo.pk = (rid,)
        mo.stored = True
        self.view.objs[mid] = mo
        self.trace.append('%s.%s OK   %s -> id %r' % (self.sess_index, self.op_index, desc, rid))
        self.probe('raw_sql_statement')
        # the statement went through prepare_connection_for_query_execution, i.e. pending changes were flushed
        self.after_flush()

    def op_create_in(self, a, b, c):
        owners = [o for o in self.live_sorted() if self.schema.by_name[o.ent].sets()]
        if not owners:
            return None
        mo = owners[a % len(owners)]
        e = self.schema.by_name[mo.ent]
        sa = e.sets()[b % len(e.sets())]
        te = self.schema.by_name[sa.rel]
        kw = self.scalar_kwargs(te, b, c)
        rel_mids = {}
        for i, ra in enumerate(te.to_ones()):
            if ra is sa.reverse:
                continue
            if ra.required:
                tgt = self.pick(S.mix(c, i), ra.rel)
                if tgt is None:
                    return None
                rel_mids[ra.name] = tgt.mid
        return self._create(te, kw, rel_mids, {}, via=(mo.mid, sa))

    def pending_prelude(self, mo, r, lean=False):
        """Leave an unflushed change pending right before a compound call (obj.set(...), delete()) on mo: every
        live object is fetched first, so that no query (auto-flush) comes between the pending change and the
        call.  False when mo did not survive.  `lean`: only mo is fetched beforehand (the objects a change needs
        are fetched by that change before it is made), so that mo's collections stay as unloaded as they were."""
        if lean:
            self.handle_or_poison(mo.mid)
        else:
            for o in self.live_sorted():
                self.handle_or_poison(o.mid)
        k = r.below(8)
        touched = None
        members = [(sa, m) for sa in self.schema.by_name[mo.ent].sets() if not sa.reverse.is_set
                   for m in sorted(self.view.partners(sa, mo.mid))]
        if k == 0:
            self.op_set(r.below(1000), r.below(1000), r.below(1000))
        elif k == 1:
            self.op_rel(r.below(1000), r.below(1000), r.below(1000))
        elif k >= 6 and members:
            # a member of one of mo's one-to-many collections (preferably the first stored one) is moved to
            # another owner or deleted, from the member's side
            sa, m = members[0] if r.chance(0.6) else members[r.below(len(members))]
            touched = sa
            others = [o.mid for o in self.live_sorted(mo.ent) if o.mid != mo.mid]
            if k == 6 and others:
                t = others[r.below(len(others))]
                self.modify('rel %s#%d.%s=#%d' % (sa.rel, m, sa.reverse.name, t),
                            lambda: setattr(self.handle(m), sa.reverse.name, self.handle(t)),
                            lambda v: v.set_to_one(m, sa.reverse, t), mids=[m, t])
            else:
                before = dict((o.mid, dict(o.vals)) for o in self.view.live())
                st, res = self.modify('del %s#%d' % (sa.rel, m), lambda: self.handle(m).delete(), lambda v: v.delete(m),
                                      mids=[m])
                if st == 'ok':
                    # as in op_del: a key released by a pending delete and taken again makes the flush order matter (R2)
                    for mid, vals in before.items():
                        if self.view.objs[mid].deleted:
                            self._note_keys_released(self.schema.by_name[self.view.objs[mid].ent], vals)
        else:
            owners = [o for o in self.live_sorted() if self.schema.by_name[o.ent].sets()]
            ids = [o.mid for o in owners]
            if mo.mid in ids:
                sets = self.schema.by_name[mo.ent].sets()
                b = r.below(len(sets))
                if r.chance(0.6):
                    # prefer a collection that has something to remove
                    full = [i for i, sa in enumerate(sets) if self.view.partners(sa, mo.mid)]
                    if full:
                        b = full[r.below(len(full))]
                touched = sets[b]
                kind = 'add' if (k >= 4 or not self.view.partners(touched, mo.mid)) else 'remove'
                c = r.below(1000)
                if kind == 'remove' and c % 4 == 0:
                    c += 1      # op_coll: take the item from the current content
                self.op_coll(kind, ids.index(mo.mid), b, c)
        return (not self.view.objs[mo.mid].deleted), touched

    def op_del(self, a, b, c):
        mo = self.pick(a)
        if mo is None:
            return None
        if c % 3 == 0 and not self.pending_prelude(mo, Rng(0, 'del', a, b, c), lean=(c % 2 == 1))[0]:
            return None
        return self.op_del_of(mo)

    def op_del_of(self, mo):
        desc = 'del %s#%d' % (mo.ent, mo.mid)
        before = dict((o.mid, dict(o.vals)) for o in self.view.live())

        def pony():
            self.handle(mo.mid).delete()

        def model(v):
            v.delete(mo.mid)

        st, res = self.modify(desc, pony, model, mids=[mo.mid])
        if st == 'ok':
            n = 0
            for mid, vals in before.items():
                if self.view.objs[mid].deleted:
                    n += 1
                    self._note_keys_released(self.schema.by_name[self.view.objs[mid].ent], vals)
                    o = self.view.objs[mid]
                    if mid != mo.mid and o.stored and o.pk is not None:
                        # deleted by the cascade of this call: its row has to be gone when the transaction commits
                        self.cascaded.add((o.ent, o.pk, desc))
            if n >= 2:
                self.probe('cascade_deleted_ge_2')
            if n >= 3:
                self.probe('cascade_depth_ge_2')
        elif st == 'refused' and isinstance(res, core.ConstraintError) and not self.fault_fired_in_session \
                and not self.view.objs[mo.mid].deleted:
            # "refuses when a required dependent exists without cascade" - and only then
            v2 = self.view.clone()
            try:
                v2.delete(mo.mid)
            except Refuse:
                self.probe('delete_refused_as_the_rule_says')
            else:
                self.viol('C15', 'refused-what-the-rule-accepts', mo.ent,
                          '%s was refused (%s) although every dependent in its way cascades or can be unlinked'
                          % (desc, str(res)[:160]))
        return st

    def op_del_ref(self, a, b, c):
        """delete an object the session knows only as a reference: a stored row that refers to it is fetched, the
        reference attribute is navigated (a bare object, nothing but its key in memory) and delete() is called on
        that.  Cascade, unlinking and refusal have to come out as for a loaded object (C15, C12, C13)."""
        r = Rng(0, 'del_ref', a, b, c)
        stored = [o for o in self.live_sorted() if o.stored and o.pk is not None]
        cands = []
        for X in stored:
            if X.mid in self.handles:
                continue
            for R in stored:
                if R.mid == X.mid:
                    continue
                for ra in self.schema.by_name[R.ent].to_ones():
                    if getattr(self.E[R.ent], ra.name).columns and self.view.get_one(ra, R.mid) == X.mid:
                        cands.append((X, R, ra))
        if not cands:
            return None
        # an object with a one-to-one partner more often: that is where the delete rules have most to do
        rich = [t for t in cands if any(not ta.is_set and not ta.reverse.is_set and self.view.get_one(ta, t[0].mid) is not None
                                        for ta in self.schema.by_name[t[0].ent].to_ones())]
        pool_ = rich if (rich and r.chance(0.7)) else cands
        X, R, ra = pool_[r.below(len(pool_))]
        if R.mid not in self.handles:
            P = self.E[R.ent]
            ok, rh = self.read('fetch %s%r' % (R.ent, R.pk), lambda: P[R.pk[0] if len(R.pk) == 1 else R.pk])
            if not ok:
                return None
            self.register(R.mid, rh)
        rh = self.handles[R.mid]
        if X.mid in self.handles:
            return None
        ok, h = self.read('navigate %s#%d.%s' % (R.ent, R.mid, ra.name), lambda: getattr(rh, ra.name))
        if not ok or h is None:
            return None
        self.register(X.mid, h)
        self.probe('seed_reached_by_navigation')
        self.probe('delete_of_bare_reference')
        return self.op_del_of(self.view.objs[X.mid])

    def op_fail_probe(self, a, b, c):
        """pending change(s) -> a call the rules refuse -> look at everything the call touched.  The refused call
        is chosen with the model (a delete the cascade rules refuse, preferably one whose cascade gets somewhere
        before it is refused; None into a required attribute; a unique value that is taken), the pending changes
        are left unflushed right before it, and afterwards the objects in its reach are asked for by primary key,
        by attribute and through their collections."""
        r = Rng(0, 'fail_probe', a, b, c)
        dels, sets_ = [], []
        for o in self.live_sorted():
            v = self.view.clone()
            v.trace = []
            try:
                v.delete(o.mid)
            except Refuse:
                # how far does the rule get before it refuses: (object, relationship) pairs in the order visited
                dels.append((list(v.trace), o))
        for o in self.live_sorted():
            e = self.schema.by_name[o.ent]
            for at in e.scalars():
                if at.is_pk:
                    continue
                if at.required:
                    sets_.append((o, at, None))
                elif at.opts.get('unique'):
                    for o2 in self.view.live(o.ent):
                        if o2.mid != o.mid and o2.vals.get(at.name) is not None:
                            sets_.append((o, at, o2.vals[at.name]))
        twins = [o for o in self.live_sorted() if o.pk is not None and not self.schema.by_name[o.ent].auto_pk
                 and not any(x.is_rel for x in self.schema.by_name[o.ent].pk_attrs)]
        # (where the entity has a unique key besides its primary key the constructor has more to take back)
        keyed = [o for o in twins if any(x.unique and not x.is_pk for x in self.schema.by_name[o.ent].scalars())
                 or self.schema.by_name[o.ent].composite_keys]
        if keyed:
            twins = keyed
        if twins and Rng(1, 'fail_probe_twin', a, b, c).chance(0.4 if keyed else 0.1):
            # a third kind of refused call: the constructor, under a primary key that a held object has
            r3 = Rng(2, 'fail_probe_twin', a, b, c)
            mo = twins[r3.below(len(twins))]
            alive, _t = self.pending_prelude(mo, r3, lean=True) if r3.chance(0.5) else (True, None)
            if not alive or self.view.objs[mo.mid].deleted:
                return None
            self.handle_or_poison(mo.mid)
            self.probe('fail_probe_constructor_same_pk')
            return self.op_new(0, r3.below(1000), r3.below(1000), same_pk_as=self.view.objs[mo.mid])
        if not dels and not sets_:
            return None
        use_del = bool(dels) and (not sets_ or r.chance(0.65))
        if use_del:
            deep = [d for d in dels if len(d[0]) > 1]
            pool_ = deep if (deep and r.chance(0.7)) else dels
            plan, mo = pool_[r.below(len(pool_))]
        else:
            mo, at, val = sets_[r.below(len(sets_))]
        before = set(o.mid for o in self.live_sorted())
        for _ in range(r.below(3)):
            if use_del and plan and r.chance(0.7):
                self.prelude_in_reach(plan, r)
            else:
                alive, _t = self.pending_prelude(mo, r, lean=r.chance(0.5))
                if not alive:
                    return None
            if self.view.objs[mo.mid].deleted:
                return None
        mo = self.view.objs[mo.mid]       # the preludes replaced the view: re-read the object
        if use_del:
            self.probe('fail_probe_delete')
            st = self.op_del_of(mo)
        else:
            self.probe('fail_probe_assignment')
            desc = 'set %s#%d.%s=%r' % (mo.ent, mo.mid, at.name, val)
            newvals = dict(mo.vals)
            newvals[at.name] = jcopy(val)
            e = self.schema.by_name[mo.ent]
            dup = self._would_duplicate(e, mo.mid, newvals) if val is not None else None

            def model(v):
                if val is None:
                    raise Refuse('None assigned to required %r' % at)
                v.objs[mo.mid].vals[at.name] = jcopy(val)
            old_vals = dict(self.view.objs[mo.mid].vals)
            st = self.modify(desc, lambda: setattr(self.handle(mo.mid), at.name, val), model, must_fail=dup,
                             mids=[mo.mid])[0]
            if st == 'ok':
                # (the prelude can have removed what stood in the way) - same bookkeeping as op_set
                self._note_keys_released(e, old_vals)
                self._note_keys_taken(e, self.view.objs[mo.mid])
        # look around: the target, what it is linked to, and a few others
        near = [mo.mid]
        e = self.schema.by_name[mo.ent]
        for ra in e.attrs:
            if ra.is_rel:
                near.extend(sorted(self.view.partners(ra, mo.mid)))
        near.extend(sorted(before))
        seen = []
        for m in near:
            if m not in seen:
                seen.append(m)
        for m in seen[:2 + r.below(4)]:
            o = self.view.objs[m]
            if o.deleted:
                continue
            if o.pk is not None:
                self._probe_pk(o)
            eo = self.schema.by_name[o.ent]
            if eo.sets() and r.chance(0.7):
                sa = eo.sets()[r.below(len(eo.sets()))]
                self._probe_coll(o, sa, r.below(6), r.below(1000))
            if r.chance(0.5):
                self.op_r_attr_of(o, eo.attrs[r.below(len(eo.attrs))])
        return st

    def op_chain(self, a, b, c):
        """Stored rows P <- C <- D (C's row refers to P, D's row refers to C).  In one flush window: C is modified,
        P deleted, D re-pointed to another row / detached / deleted, C deleted - each step only as far as the model
        allows - then flush.  C's DELETE moves to the end of the save queue (it was modified first), P's DELETE has
        to wait for it and it has to wait for D's UPDATE or DELETE: the statements can always be ordered, the
        early-delete machinery of flush has to find the order (C16)."""
        r = Rng(0, 'chain', a, b, c)

        def col_refs(o):
            e = self.schema.by_name[o.ent]
            return [ra for ra in e.to_ones() if getattr(self.E[o.ent], ra.name).columns]

        chains = []
        stored = [o for o in self.live_sorted() if o.stored and o.pk is not None]
        for C in stored:
            ups = [(ra, self.view.get_one(ra, C.mid)) for ra in col_refs(C)]
            ups = [(ra, m) for ra, m in ups if m is not None and m != C.mid and self.view.objs[m].stored]
            if not ups:
                continue
            downs = []
            for D in stored:
                if D.mid == C.mid:
                    continue
                for rd in col_refs(D):
                    if self.view.get_one(rd, D.mid) == C.mid:
                        downs.append((D, rd))
            for ra, pm in ups:
                for D, rd in downs:
                    if D.mid != pm:
                        chains.append((pm, ra, C, D, rd))
        if not chains:
            return None
        pm, ra, C, D, rd = chains[r.below(len(chains))]
        self.probe('chain_scenario')
        others = [o.mid for o in stored if o.mid not in (C.mid, D.mid, pm)
                  and (o.ent == rd.rel or self.view._is_sub(o.ent, rd.rel))]
        for m in [pm, C.mid, D.mid] + others[:1]:
            self.handle_or_poison(m)
        # 1. C is modified (its UPDATE is queued)
        idx = [o.mid for o in self.live_sorted()].index(C.mid)
        self.op_set(idx, r.below(1000), r.below(1000))
        # 2. P goes
        if not self.view.objs[pm].deleted:
            self.op_del_of(self.view.objs[pm])
        # 3. D stops referring to C
        k = r.below(10)
        if not self.view.objs[D.mid].deleted and self.view.get_one(rd, D.mid) == C.mid:
            if k < 5 and others:
                t = others[0]
                self.modify('rel %s#%d.%s=#%d' % (D.ent, D.mid, rd.name, t),
                            lambda: setattr(self.handle(D.mid), rd.name, self.handle(t)),
                            lambda v: v.set_to_one(D.mid, rd, t), mids=[D.mid, t])
            elif k < 7 and not rd.required:
                self.modify('rel %s#%d.%s=None' % (D.ent, D.mid, rd.name),
                            lambda: setattr(self.handle(D.mid), rd.name, None),
                            lambda v: v.set_to_one(D.mid, rd, None), mids=[D.mid])
            elif k < 9:
                self.op_del_of(self.view.objs[D.mid])
        # 4. C goes (refused by the rules when D still needs it: then the flush has less to order)
        if not self.view.objs[C.mid].deleted:
            self.op_del_of(self.view.objs[C.mid])
        self.op_flush()
        return 'ok'

    def op_cycle(self, a, b, c):
        """new objects that refer to each other in a cycle (or one that refers to itself), optionally after a
        pending removal of a stored many-to-many link, then a flush: the cycle cannot be ordered, the flush has to
        raise and nothing of the session may reach the database (C16, second clause)"""
        r = Rng(0, 'cycle', a, b, c)
        e = self.schema.by_name['Person']
        if r.chance(0.6):
            # a stored many-to-many link is removed first: its DELETE is the first statement of the flush
            owners = [o for o in self.live_sorted() if self.schema.by_name[o.ent].sets()]
            cands = []
            for i, o in enumerate(owners):
                for j, sa in enumerate(self.schema.by_name[o.ent].sets()):
                    if sa.reverse.is_set and any(self.view.objs[m].stored for m in self.view.partners(sa, o.mid)) and o.stored:
                        cands.append((i, j))
            if cands:
                i, j = cands[r.below(len(cands))]
                self.op_coll('remove', i, j, 1 + 4 * r.below(200))
        mids = []
        for _ in range(1 if r.chance(0.3) else 2):
            kw = self.scalar_kwargs(e, r.below(1000), r.below(1000))
            if self._create(e, kw, {}, {}) != 'ok':
                return None
            mids.append(self.last_created)
        ra = e.by_name['boss']
        ring = mids + [mids[0]]
        for x, y in zip(ring, ring[1:]):
            self.modify('rel Person#%d.boss=#%d' % (x, y), lambda x=x, y=y: setattr(self.handle(x), 'boss', self.handle(y)),
                        lambda v, x=x, y=y: v.set_to_one(x, ra, y), mids=[x, y])
        self.probe('cycle_of_new_objects_built')
        self.op_flush()
        return 'ok'

    def op_jedit(self, a, b, c):
        """a change made in place inside a tracked Json value (value['k'] = n, value['l'].append(n), del value['k']):
        it is a modification of the object like an assignment"""
        cands = [o for o in self.live_sorted('Course')]
        if not cands:
            return None
        mo = cands[a % len(cands)]
        cur = mo.vals.get('meta')
        # the value is read first (a read of an unloaded attribute queries, and a query flushes): what is judged
        # as a modification is the change in place alone
        h = self.handle_or_poison(mo.mid)
        ok, got = self.read('r_attr Course#%d.meta' % mo.mid, lambda: h.meta)
        if ok:
            self.expect('r_attr Course#%d.meta' % mo.mid, got, cur)
        k = b % 4
        if not isinstance(cur, dict):
            new = {'k': c % 5}
            desc = 'jedit Course#%d.meta = %r' % (mo.mid, new)
            pony = lambda: setattr(self.handle(mo.mid), 'meta', jcopy(new))
        elif k == 0 or (k == 3 and 'k' not in cur):
            new = jcopy(cur)
            new['k'] = c % 5
            desc = "jedit Course#%d.meta['k'] = %d" % (mo.mid, c % 5)
            pony = lambda: self.handle(mo.mid).meta.__setitem__('k', c % 5)
        elif k == 1 and isinstance(cur.get('l'), list):
            new = jcopy(cur)
            new['l'].append(c % 5)
            desc = "jedit Course#%d.meta['l'].append(%d)" % (mo.mid, c % 5)
            pony = lambda: self.handle(mo.mid).meta['l'].append(c % 5)
        elif k == 3:
            new = jcopy(cur)
            del new['k']
            desc = "jedit del Course#%d.meta['k']" % mo.mid
            pony = lambda: self.handle(mo.mid).meta.__delitem__('k')
        else:
            new = jcopy(cur)
            new['l'] = [c % 3]
            desc = "jedit Course#%d.meta['l'] = [%d]" % (mo.mid, c % 3)
            pony = lambda: self.handle(mo.mid).meta.__setitem__('l', [c % 3])
        if new == cur:
            return None

        def model(v):
            v.objs[mo.mid].vals['meta'] = jcopy(new)
        return self.modify(desc, pony, model, mids=[mo.mid])[0]

    def op_partial(self, a, b, c):
        """A collection that is only partly in memory when something happens to it: fetch an owner, fetch ONE of
        its stored members (which puts just that member into the owner's collection), leave a change of that
        member or of the collection pending, then run a call on the owner that has to take the rest of the
        collection into account (delete, clear, assignment, a question) - without any query in between.  Most
        telling as the first operation of a session, when nothing else is loaded."""
        r = Rng(0, 'partial', a, b, c)
        cands = []
        for o in self.live_sorted():
            if not o.stored:
                continue
            for sa in self.schema.by_name[o.ent].sets():
                ms = [m for m in sorted(self.view.partners(sa, o.mid)) if self.view.objs[m].stored and m != o.mid]
                if ms:
                    cands.append((o, sa, ms))
        if not cands:
            return None
        big = [x for x in cands if len(x[2]) >= 2]
        pool_ = big if (big and r.chance(0.7)) else cands
        o, sa, ms = pool_[r.below(len(pool_))]
        self.probe('partial_scenario')
        # bystanders: other owners of the same kind in the identity map, their collections not loaded (the batch
        # loader picks them up when the owner's collection is loaded); one of them may have loaded its own first,
        # which arms the N+1 batching of this attribute
        others_same = [x for x in self.live_sorted(o.ent) if x.mid != o.mid and x.stored]
        bystanders = []
        if others_same and r.chance(0.6):
            r.shuffle(others_same)
            bystanders = others_same[:2 + r.below(2)]
            for x in bystanders:
                self.handle_or_poison(x.mid)
            if r.chance(0.5):
                # a full load of the same attribute elsewhere (len / iteration) arms the batching
                self._probe_coll(bystanders[-1], sa, (0, 3, r.below(6))[r.below(3)], r.below(1000),
                                 tag=' [bystander, first load]')
                bystanders = bystanders[:-1]
                self.probe('partial_first_load_elsewhere')
        if bystanders and sa.reverse.is_set and Rng(1, 'partial_bm', a, b, c).chance(0.5):
            # a batch-mate with a pending addition to its own (not loaded) collection: the batch load of the owner's
            # collection further down merges the stored rows into that collection as well
            r2 = Rng(2, 'partial_bm', a, b, c)
            x = bystanders[r2.below(len(bystanders))]
            have = self.view.partners(sa, x.mid)
            free = [m.mid for m in self.live_sorted(sa.rel) if m.stored and m.mid not in have and m.mid != x.mid]
            if have and free:
                t = free[r2.below(len(free))]
                self.modify('add %s#%d.%s [#%d]' % (x.ent, x.mid, sa.name, t),
                            lambda: getattr(self.handle(x.mid), sa.name).add(self.handle(t)),
                            lambda v: v.coll_add(x.mid, sa, [t]), mids=[x.mid, t])
                self.probe('partial_bystander_pending_add')
        if r.chance(0.8):
            self.handle_or_poison(o.mid)
        it = ms[0] if r.chance(0.6) else ms[r.below(len(ms))]
        shared = [m for m in ms if any(m in self.view.partners(sa, x.mid) for x in bystanders)]
        if shared and r.chance(0.7):
            it = shared[r.below(len(shared))]       # a member a bystander is linked to as well (many-to-many)
        owners = [x.mid for x in self.live_sorted() if self.schema.by_name[x.ent].sets()]
        ai, bi = owners.index(o.mid), self.schema.by_name[o.ent].sets().index(sa)
        k = r.below(10)
        if sa.reverse.is_set and k < 6:
            k = 6 + k % 3 if k >= 2 else 4          # many-to-many: mostly a pending removal, sometimes the member goes
        others = [x.mid for x in self.live_sorted(o.ent) if x.mid != o.mid and x.stored]
        if k < 4 and not sa.reverse.is_set and others:
            t = others[r.below(len(others))]
            self.modify('rel %s#%d.%s=#%d' % (sa.rel, it, sa.reverse.name, t),
                        lambda: setattr(self.handle(it), sa.reverse.name, self.handle(t)),
                        lambda v: v.set_to_one(it, sa.reverse, t), mids=[it, t])
        elif k < 6:
            self.modify('del %s#%d' % (sa.rel, it), lambda: self.handle(it).delete(), lambda v: v.delete(it), mids=[it])
        elif k < 9:
            self.modify('remove %s#%d.%s [#%d]' % (o.ent, o.mid, sa.name, it),
                        lambda: getattr(self.handle(o.mid), sa.name).remove(self.handle(it)),
                        lambda v: v.coll_remove(o.mid, sa, [it]), mids=[o.mid, it])
        else:
            self.handle_or_poison(it)       # only loaded
        if self.view.objs[o.mid].deleted:
            return None
        j = r.below(10)
        if j < 4:
            st = self.op_del_of(self.view.objs[o.mid])
        elif j < 6:
            st = self.op_coll('clear' if j == 4 else 'assign', ai, bi, r.below(1000))
        else:
            st = None
            self._probe_coll(self.view.objs[o.mid], sa, r.below(6), r.below(1000), tag=' [partly loaded, change pending]')
            if r.chance(0.5):
                self._probe_coll(self.view.objs[o.mid], sa, r.below(6), r.below(1000), tag=' [again]')
        # what the bystanders and the member see afterwards (both ends of links nobody touched)
        for x in bystanders:
            if self.view.objs[x.mid].deleted:
                continue
            if r.chance(0.5) and not self.view.objs[it].deleted:
                # a link nobody touched, asked from both ends
                self.audit_membership(self.view.objs[x.mid], sa, it, ' [bystander, both ends]')
            else:
                self._probe_coll(self.view.objs[x.mid], sa, (3, 4, 0)[r.below(3)], r.below(1000), tag=' [bystander]')
        if sa.reverse.is_set and not self.view.objs[it].deleted and r.chance(0.7):
            self._probe_coll(self.view.objs[it], sa.reverse, (3, 4, 0)[r.below(3)], r.below(1000), tag=' [member side]')
        return st

    def prelude_in_reach(self, plan, r):
        """an unflushed change inside the reach of a delete that is going to be refused: in a collection or at an
        object the cascade visits before the refusal (so that the failed call has to put it back exactly)"""
        if r.chance(0.6):
            for o in self.live_sorted():
                self.handle_or_poison(o.mid)
        else:
            self.handle_or_poison(plan[0][0])
        head = plan[:-1] or plan
        m, at = head[r.below(len(head))] if r.chance(0.8) else plan[r.below(len(plan))]
        mo = self.view.objs[m]
        if mo.deleted:
            return
        owners = [o.mid for o in self.live_sorted() if self.schema.by_name[o.ent].sets()]
        e = self.schema.by_name[mo.ent]
        k = r.below(10)
        if k < 2:
            # a new dependent the cascade will reach: a partner for a cascading one-to-one attribute that is
            # empty (an explicit primary key, not yet inserted), else a new member of a cascading collection
            reach = [m] + sorted(self.view.partners(at, m))
            r.shuffle(reach)
            for t in reach:
                et = self.schema.by_name[self.view.objs[t].ent]
                for ra in et.to_ones():
                    if ra.cascade and not ra.reverse.is_set and self.view.get_one(ra, t) is None:
                        te = self.schema.by_name[ra.rel]
                        self._create(te, self.scalar_kwargs(te, r.below(1000), r.below(1000)), {ra.reverse.name: t}, {})
                        self.probe('prelude_created_partner_in_reach')
                        return
        if at.is_set and m in owners:
            ai, bi = owners.index(m), e.sets().index(at)
            if k < 4:
                self.op_create_in(ai, bi, r.below(1000))
                self.probe('prelude_created_member_in_reach')
            elif k < 6 and self.view.partners(at, m):
                self.op_coll('remove', ai, bi, 1 + 4 * r.below(200))
                self.probe('prelude_pending_removal_in_reach')
            elif k < 9 and self.view.partners(at, m) and not at.reverse.is_set:
                # from the member's side: the first stored member (or any) moves to another owner, or goes
                members = sorted(self.view.partners(at, m))
                it = members[0] if r.chance(0.6) else members[r.below(len(members))]
                others = [o.mid for o in self.live_sorted(mo.ent) if o.mid != m]
                if k < 8 and others:
                    t = others[r.below(len(others))]
                    self.modify('rel %s#%d.%s=#%d' % (at.rel, it, at.reverse.name, t),
                                lambda: setattr(self.handle(it), at.reverse.name, self.handle(t)),
                                lambda v: v.set_to_one(it, at.reverse, t), mids=[it, t])
                    self.probe('prelude_member_moved_in_reach')
                else:
                    self.modify('del %s#%d' % (at.rel, it), lambda: self.handle(it).delete(), lambda v: v.delete(it),
                                mids=[it])
                    self.probe('prelude_member_deleted_in_reach')
            else:
                self.op_coll('add', ai, bi, r.below(1000))
        else:
            pm = self.view.get_one(at, m) if not at.is_set else None
            tgt = self.view.objs.get(pm) if pm is not None else mo
            idx = [o.mid for o in self.live_sorted()].index(tgt.mid)
            self.op_set(idx, r.below(1000), r.below(1000))

    def op_peer(self, a, b, c):
        """A peer - another process with the same database file open - commits one small write behind the session's
        back (deletes an unlinked row, empties a nullable unique column and maybe hands the value to another row,
        changes a plain column).  From then on the model no longer claims to know what the session sees: reads and
        changes go on unjudged, any error ends the session, and the session is rolled back at its end.  What stays
        judged: the white-box index invariants after every operation that returned (C11: each key value in the
        session maps to the object that holds it, also after rows were read again), an UPDATE that matched no row
        and was accepted by the flush of an optimistic session (C09: the program would commit a change that is not
        in the database), and all-or-nothing of the rolled-back session against committed state + the peer's write."""
        import sqlite3
        opts = self.cur_session_opts
        if self.peer or self.blind or self.knobs.get('hook_mode') or self.raw_kw or self.knobs.get('legacy_keys'):
            return
        if opts.get('ddl') or opts.get('optimistic') is False or opts.get('serializable') or opts.get('immediate'):
            return          # those sessions hold the database lock from their first statement: the peer would wait
        if self.case.get('faults') or self.case.get('fault_op') or self.case.get('end_fault') \
                or self.fault_fired_in_session or self.case.get('detached'):
            return
        cv = self.committed
        live = [o for o in sorted(cv.live(), key=lambda o: o.mid) if o.stored and o.pk is not None and o.ent != 'Log']
        kind = a % 3
        v2 = cv.clone()
        stmts = []

        def where(o):
            P = self.E[o.ent]
            return ' AND '.join('"%s" = ?' % col for col in P._pk_columns_), list(o.pk)

        if kind == 0:
            cands = [o for o in live
                     if not any(cv.partners(at, o.mid) for at in self.schema.by_name[o.ent].attrs if at.is_rel)]
            if not cands:
                return
            x = cands[b % len(cands)]
            w, args = where(x)
            stmts.append(('DELETE FROM "%s" WHERE %s' % (self.E[x.ent]._table_, w), args))
            v2.delete(x.mid)
            what = 'deletes %s#%d' % (x.ent, x.mid)
        elif kind == 1:
            cands = [(o, at) for o in live for at in self.schema.by_name[o.ent].scalars()
                     if at.unique and not at.is_pk and at.nullable and o.vals.get(at.name) is not None]
            if not cands:
                return
            x, at = cands[b % len(cands)]
            val = x.vals[at.name]
            col = getattr(self.E[x.ent], at.name).column
            w, args = where(x)
            stmts.append(('UPDATE "%s" SET "%s" = NULL WHERE %s' % (self.E[x.ent]._table_, col, w), args))
            v2.objs[x.mid].vals[at.name] = None
            what = 'empties %s#%d.%s (%r)' % (x.ent, x.mid, at.name, val)
            heirs = [o for o in live if o.mid != x.mid and at.name in self.schema.by_name[o.ent].by_name
                     and o.vals.get(at.name) is None]
            if heirs and c % 2:
                y = heirs[(c >> 1) % len(heirs)]
                w, args = where(y)
                stmts.append(('UPDATE "%s" SET "%s" = ? WHERE %s' % (self.E[y.ent]._table_, col, w), [val] + args))
                v2.objs[y.mid].vals[at.name] = val
                what += ' and gives it to %s#%d' % (y.ent, y.mid)
        else:
            cands = []
            for o in live:
                e = self.schema.by_name[o.ent]
                in_keys = set(n for k in e.composite_keys for n in k)
                for at in e.scalars():
                    if at.is_pk or at.unique or at.is_json or at.name in in_keys or at.lazy or at.volatile:
                        continue
                    vals = [v for v in pool(e.name, at.name) if v != o.vals.get(at.name)
                            and (v is not None or not at.required) and not (v is None and at.type == 'str'
                                                                            and not at.nullable)]
                    if vals:
                        cands.append((o, at, vals))
            if not cands:
                return
            x, at, vals = cands[b % len(cands)]
            val = vals[c % len(vals)]
            col = getattr(self.E[x.ent], at.name).column
            w, args = where(x)
            stmts.append(('UPDATE "%s" SET "%s" = ? WHERE %s' % (self.E[x.ent]._table_, col, w), [val] + args))
            v2.objs[x.mid].vals[at.name] = val
            what = 'sets %s#%d.%s = %r' % (x.ent, x.mid, at.name, val)
        self.cur_op_desc = 'peer ' + what
        con = sqlite3.connect(self.path, isolation_level=None, timeout=0)
        try:
            con.execute('PRAGMA foreign_keys = ON')
            con.execute('BEGIN IMMEDIATE')
            n = 0
            for sql, args in stmts:
                n += con.execute(sql, args).rowcount
            con.execute('COMMIT')
        except sqlite3.OperationalError:
            # the session holds a write transaction (it has flushed): the peer would have to wait
            self.probe('peer_write_blocked')
            return
        except sqlite3.IntegrityError:
            self.probe('peer_write_refused')
            return
        finally:
            con.close()
        if n != len(stmts):
            raise RuntimeError('peer write touched %d rows, expected %d: %s' % (n, len(stmts), what))
        self.trace.append('%s.%s OK   peer %s' % (self.sess_index, self.op_index, what))
        self.committed = v2
        self.peer = {'g': simdb.ctx.g, 'kind': kind, 'what': what}
        self.probe('peer_write_%s' % ('delete', 'unique_to_null', 'scalar')[kind])
        # (counted with the injected faults in the evidence; kept apart from simdb's list, which the fault logic reads)
        self.peer_fired.append([simdb.ctx.g, 'peer', 0, 'between_ops', 'peer_write_' + ('delete', 'unique_to_null', 'scalar')[kind]])

    def finish_peer_session(self):
        """end of a session that went on after a peer's write: flush (what commit would send), judge, roll back"""
        info = self.peer
        self.cur_op_desc = 'flush at the end of a session that a peer wrote behind (%s)' % info['what']
        try:
            flush()
            ok = True
        except Exception as e:
            ok = False
            self.probe('peer_session_refused_' + type(e).__name__)
        if ok:
            self.probe('peer_session_flush_ok')
            zero = [ev for ev in simdb.ctx.events if ev['g'] >= info['g'] and ev.get('kind') == 'execute'
                    and ev.get('rc') == 0 and (ev.get('sql') or '').startswith('UPDATE "') and 'exc' not in ev]
            if zero:
                self.viol('C09', 'update-of-vanished-row-accepted', 'peer=%s' % ('delete', 'unique_to_null', 'scalar')[info['kind']],
                          'a peer %s and committed; the session then sent %r, which matched no row, and its flush '
                          'reported nothing: commit() would succeed although the change is not in the database'
                          % (info['what'], zero[0].get('sql')))
        self.cur_op_desc = 'rollback at the end of a session that a peer wrote behind'
        rollback()
        self.discard_session_state('peer write, rolled back')
        self.compare_db(self.committed, 'C09', 'rolled-back-changes-visible', 'peer-write-then-rollback')
        self.peer = None
        self.probe('peer_session_rolled_back')

    def op_bulk_del(self, a, b, c):
        """select(...).delete(bulk=True): one DELETE statement, the database's ON DELETE clauses do what
        Entity._delete_ does in memory (C15: "including rows deleted by bulk query deletes").  The objects in
        memory are not told, so the op flushes first, commits right after and ends the session's work."""
        order = self.ent_order()
        e = self.schema.by_name[order[a % len(order)]]
        P = self.E[e.name]
        attrs = [x for x in e.queryable() if not x.auto]
        at = attrs[b % len(attrs)]
        p = pool(e.name, at.name)
        val = p[c % len(p)]
        name = at.name
        self.op_flush()
        if val is None or (c >> 4) % 3 == 0:
            what = 'bulk_del delete(x for x in %s)' % e.name
            q = lambda: select(x for x in P)
            matched = sorted(o.mid for o in self.view.live(e.name))
        else:
            what = 'bulk_del delete(x for x in %s if x.%s == %r)' % (e.name, name, val)
            q = lambda: select(x for x in P if getattr(x, name) == val)
            matched = self._matching(e, at, val)
        self.cur_op_desc = what
        v2 = self.view.clone()
        col = lambda ra: bool(getattr(self.E[ra.ent.name], ra.name).columns)
        allowed = v2.db_bulk_delete(e.name, matched, has_column=col)
        self.probe('bulk_delete_%s' % ('allowed' if allowed else 'restricted'))
        try:
            n = q().delete(bulk=True)
        except Exception as ex:
            self.trace.append('%s.%s FAIL %s -> %s' % (self.sess_index, self.op_index, what, type(ex).__name__))
            if allowed and not self.fault_fired_in_session and not any(getattr(x, 'ponysim_injected', None) for x in _chain(ex)):
                self.probe('obs_bulk_delete_refused_although_the_keys_allow_it')
            raise S.Poisoned()      # the session is rolled back; the file must hold what was committed before
        self.trace.append('%s.%s OK   %s -> %d' % (self.sess_index, self.op_index, what, n))
        if not allowed:
            # the statement went through although a row that requires one of the deleted rows is left: commit
            # and let the dump speak (dangling reference, or rows that vanished with it)
            self.probe('bulk_delete_accepted_against_the_rule')
            v2 = self.view.clone()
            for m in matched:
                v2.objs[m].deleted = True
        self.view = v2
        self.cur_op_desc = what + ' ; commit'
        try:
            commit()
        except Exception as ex:
            self.flush_failed(ex, 'commit after bulk delete')
            raise S.Poisoned()
        self.after_flush()
        self.committed = self.view.clone()
        if not self.compare_db(self.committed, 'C09', 'committed-state-differs', 'commit-after-bulk-delete'):
            self.viol('C15', 'bulk-delete-differs-from-cascade-rules', e.name,
                      '%s deleted %d row(s); the committed database differs from what the cascade / unlink / refuse '
                      'rules give for deleting %r' % (what, n, ['%s#%d' % (e.name, m) for m in matched]))
        self.probe('commit_ok')
        # the objects in memory were not told about the statement: they are not judged any more
        self.handles = {}
        self.h2m = {}
        self.stop_session = True

    # ------------------------------------------------------------------ reads (C10, C11 identity)
    def expect(self, what, got, exp):
        if got != exp:
            self.viol('C10', 'read-differs-from-session-view', what.split(' ')[0],
                      '%s returned %r, the session view says %r' % (what, got, exp))
            return False
        return True

    def read(self, desc, fn, exp_exc=None):
        """run a read; returns (ok, value). Flush failures poison the session."""
        self.cur_op_desc = desc
        try:
            return True, fn()
        except (S.Marker, S.Poisoned):
            raise
        except Exception as e:
            if exp_exc is not None and isinstance(e, exp_exc):
                return False, e
            if isinstance(e, core.UnrepeatableReadError) and not self.fault_fired_in_session \
                    and not any(getattr(x, 'ponysim_injected', None) for x in _chain(e)):
                # nobody else writes to this database: a read that reports a concurrent change is a read that
                # did not return the session's data (under loading knobs the check re-tags this as C23)
                self.viol('C10', 'read-raised-unrepeatable', desc.split(' ')[0],
                          '%s raised UnrepeatableReadError in a history with a single writer: %s'
                          % (desc, str(e)[:240]))
                raise S.Poisoned()
            self.flush_failed(e, 'autoflush in %s' % desc.split(' ')[0])
            raise S.Poisoned()

    def mids(self, objs):
        out = []
        for h in objs:
            m = self.mid_of(h)
            if m is None:
                self.viol('C10', 'unknown-object-returned', type(h).__name__,
                          'the system returned %s%r which the session view does not contain'
                          % (type(h).__name__, h._pkval_))
            out.append(m)
        return sorted(x for x in out if x is not None)

    def op_r_attr(self, a, b, c):
        mo = self.pick(a)
        if mo is None:
            return
        e = self.schema.by_name[mo.ent]
        self.op_r_attr_of(mo, e.attrs[b % len(e.attrs)])

    def op_r_attr_of(self, mo, at):
        e = self.schema.by_name[mo.ent]
        what = 'r_attr %s#%d.%s' % (mo.ent, mo.mid, at.name)
        h = self.handle_or_poison(mo.mid)
        if at.is_set:
            ok, got = self.read(what, lambda: self.mids(list(getattr(h, at.name))))
            if ok:
                self.expect(what, got, sorted(self.view.partners(at, mo.mid)))
        elif at.is_rel:
            ok, got = self.read(what, lambda: getattr(h, at.name))
            if ok:
                exp = self.view.get_one(at, mo.mid)
                gm = self.mid_of(got) if got is not None else None
                if self.expect(what, gm, exp) and exp is not None and self.handles.get(exp) is not got:
                    self.viol('C11', 'navigation-returned-other-object', '%s.%s' % (mo.ent, at.name),
                              '%s returned a different Python object than the one already held' % what)
        else:
            if at.is_pk and mo.pk is None:
                return
            ok, got = self.read(what, lambda: getattr(h, at.name))
            if ok:
                self.expect(what, got, mo.vals.get(at.name))

    def handle_or_poison(self, mid):
        try:
            return self.handle(mid)
        except core.ObjectNotFound as e:
            self.viol('C10', 'object-not-found', self.view.objs[mid].ent,
                      'lookup by primary key of %r (present in the session view) raised ObjectNotFound' % (self.view.objs[mid],))
            raise S.Poisoned()
        except (S.Marker, S.Poisoned):
            raise
        except Exception as e:
            self.flush_failed(e, 'autoflush in lookup')
            raise S.Poisoned()

    def op_r_pk(self, a, b, c):
        objs = sorted((o for o in self.view.objs.values() if o.pk is not None), key=lambda o: o.mid)
        if not objs:
            return
        self._probe_pk(objs[a % len(objs)])

    def op_r_proxy(self, a, b, c):
        """EntityProxy (make_proxy): made from an object once, kept by the program across operations and
        sessions, dereferenced later - it has to yield the object the *current* session holds for that primary
        key (C11 lists proxies among the access paths), or ObjectNotFound when there is none"""
        if not hasattr(self, 'proxies'):
            self.proxies = {}
        objs = sorted((o for o in self.view.objs.values() if o.pk is not None and (o.stored or not o.deleted)),
                      key=lambda o: o.mid)
        if not objs:
            return
        mo = objs[a % len(objs)]
        key = (mo.ent, mo.pk)
        if key not in self.proxies:
            if mo.deleted:
                return
            h = self.handle_or_poison(mo.mid)
            self.proxies[key] = core.make_proxy(h)
            self.probe('proxy_made')
            if b % 2:
                return
        proxy = self.proxies[key]
        what = 'r_proxy proxy of %s%r' % (mo.ent, mo.pk)
        holders = [o for o in self.view.live(mo.ent) if o.pk == mo.pk]
        e = self.schema.by_name[mo.ent]
        if not holders and any(x.is_rel for x in e.pk_attrs):
            return      # (see _probe_pk: a raw key that is a reference plants an unverified seed)
        ok, got = self.read(what, lambda: proxy._get_object(), exp_exc=core.ObjectNotFound)
        self.probe('proxy_dereferenced')
        if not holders:
            if ok and got._status_ not in ('deleted', 'cancelled', 'marked_to_delete'):
                self.viol('C10', 'deleted-object-still-found', mo.ent, '%s returned an object the session deleted' % what)
            elif ok:
                # the proxy hands out the object deleted in this session (Entity[pk] raises ObjectNotFound for it);
                # every use of that object raises, and it is the one object of that key: an observation, not C11
                self.probe('obs_proxy_returns_object_deleted_in_session')
            return
        if not ok:
            self.viol('C10', 'object-not-found', mo.ent, '%s raised ObjectNotFound for an object present in the view' % what)
            return
        tgt = holders[-1]
        th = self.handle_or_poison(tgt.mid)
        if got is not th:
            self.viol('C11', 'proxy-returned-other-object', mo.ent,
                      '%s returned %r (status %s), a different Python object than the one the session holds for that key '
                      '(%r, status %s)' % (what, got, got._status_, th, th._status_))

    def op_proxy_reuse(self, a, b, c):
        """a proxy that has been dereferenced, then: the object is deleted, the delete flushed, a new object created
        under the same (program-chosen) primary key - the proxy has to hand out the new object (C11)"""
        if not hasattr(self, 'proxies'):
            self.proxies = {}
        cands = [o for o in self.live_sorted() if o.stored and o.pk is not None
                 and not self.schema.by_name[o.ent].auto_pk
                 and not any(x.is_rel for x in self.schema.by_name[o.ent].pk_attrs)]
        if not cands:
            return
        mo = cands[a % len(cands)]
        e = self.schema.by_name[mo.ent]
        key = (mo.ent, mo.pk)
        h = self.handle_or_poison(mo.mid)
        if key not in self.proxies:
            self.proxies[key] = core.make_proxy(h)
            self.probe('proxy_made')
        proxy = self.proxies[key]
        what = 'r_proxy proxy of %s%r' % (mo.ent, mo.pk)
        ok, got = self.read(what + ' [first]', lambda: proxy._get_object(), exp_exc=core.ObjectNotFound)
        if not ok or got is not h:
            self.viol('C11', 'proxy-returned-other-object', mo.ent, '%s did not return the object held for that key' % what)
            return
        kw = dict((x.name, jcopy(mo.vals.get(x.name))) for x in e.scalars() if not x.is_json and mo.vals.get(x.name) is not None)
        rels = dict((ra.name, self.view.get_one(ra, mo.mid)) for ra in e.to_ones()
                    if ra.required and self.view.get_one(ra, mo.mid) is not None)
        if self.op_del_of(mo) != 'ok':
            return
        self.op_flush()
        if any(self.view.objs[m].deleted for m in rels.values()):
            return
        self._create(e, kw, rels, {})
        holders = [o for o in self.view.live(mo.ent) if o.pk == mo.pk]
        if not holders:
            return
        self.probe('proxy_key_recreated')
        ok, got = self.read(what + ' [key re-created]', lambda: proxy._get_object(), exp_exc=core.ObjectNotFound)
        if not ok:
            self.viol('C10', 'object-not-found', mo.ent, '%s raised ObjectNotFound for an object present in the view' % what)
            return
        th = self.handle_or_poison(holders[-1].mid)
        if got is not th:
            self.viol('C11', 'proxy-returned-other-object', mo.ent,
                      '%s returned %r (status %s), a different Python object than the one the session holds for that key '
                      '(%r, status %s)' % (what, got, got._status_, th, th._status_))

    def _probe_pk(self, mo):
        e = self.schema.by_name[mo.ent]
        ask = mo.ent
        if e.base and (mo.mid + self.op_index if isinstance(self.op_index, int) else mo.mid) % 2:
            ask = e.base        # through the base class: Person[pk] has to hand out the Student object
        P = self.E[ask]
        what = 'r_pk %s[%r]' % (ask, mo.pk)
        key = mo.pk[0] if len(mo.pk) == 1 else mo.pk
        # another live object may have taken over the same key (delete + recreate)
        holders = [o for o in self.view.live(ask) if o.pk == mo.pk]
        if not holders and any(x.is_rel for x in e.pk_attrs) and \
                not all(any(t.pk == (kv,) for t in self.view.live(x.rel)) for x, kv in zip(e.pk_attrs, mo.pk) if x.is_rel):
            # a raw value for a primary key that is a reference plants an (unverified) reference to a row that
            # does not exist in the identity map: a guessed foreign key, not generated (see DESIGN 10)
            return
        ok, got = self.read(what, lambda: P[key], exp_exc=core.ObjectNotFound)
        if not holders:
            if ok:
                self.viol('C10', 'deleted-object-still-found', mo.ent, '%s returned an object the session deleted' % what)
            return
        if not ok:
            self.viol('C10', 'object-not-found', mo.ent, '%s raised ObjectNotFound for an object present in the view' % what)
            return
        tgt = holders[-1]
        gm = self.mid_of(got)
        self.expect(what, gm, tgt.mid)
        if self.handles.get(tgt.mid) is not got:
            self.viol('C11', 'lookup-returned-other-object', mo.ent,
                      '%s returned a different Python object than the one already held' % what)

    def _matching(self, e, attr, val):
        return sorted(o.mid for o in self.view.live(e.name) if o.vals.get(attr.name) == val)

    def op_r_get(self, a, b, c, exists=False):
        order = self.ent_order()
        e = self.schema.by_name[order[a % len(order)]]
        attrs = [x for x in e.queryable() if not x.auto]
        at = attrs[b % len(attrs)]
        p = pool(e.name, at.name)
        val = p[c % len(p)]
        if val is None:
            return
        P = self.E[e.name]
        exp = self._matching(e, at, val)
        what = '%s %s(%s=%r)' % ('r_exists' if exists else 'r_get', e.name, at.name, val)
        if exists:
            ok, got = self.read(what, lambda: P.exists(**{at.name: val}))
            if ok:
                self.expect(what, got, bool(exp))
            return
        ok, got = self.read(what, lambda: P.get(**{at.name: val}), exp_exc=core.MultipleObjectsFoundError)
        if not ok:
            if len(exp) <= 1:
                self.viol('C10', 'spurious-multiple-objects', e.name, '%s raised MultipleObjectsFoundError, view has %r' % (what, exp))
            return
        if len(exp) > 1:
            self.viol('C10', 'get-missed-multiple-objects', e.name, '%s returned %r although the view holds %r' % (what, got, exp))
            return
        gm = self.mid_of(got) if got is not None else None
        if self.expect(what, gm, exp[0] if exp else None) and got is not None and self.handles.get(gm) is not got:
            self.viol('C11', 'lookup-returned-other-object', e.name, what)

    def op_r_getrel(self, a, b, c):
        """lookups by a reference: Entity.get(ref=obj) / exists(ref=obj) / select(ref=obj), also with an object
        created in this session that has no primary key yet"""
        order = self.ent_order()
        e = self.schema.by_name[order[a % len(order)]]
        P = self.E[e.name]
        ras = [ra for ra in e.to_ones() if getattr(P, ra.name).columns]
        if not ras:
            return
        ra = ras[b % len(ras)]
        tgts = self.live_sorted(ra.rel)
        if not tgts:
            return
        new = [o for o in tgts if not o.stored]
        tgt = new[(c >> 3) % len(new)] if (new and c % 2) else tgts[(c >> 3) % len(tgts)]
        th = self.handle_or_poison(tgt.mid)
        exp = sorted(o.mid for o in self.view.live(e.name) if self.view.get_one(ra, o.mid) == tgt.mid)
        form = (c >> 1) % 3
        what = 'r_getrel %s.%s(%s=%s#%d%s)' % (e.name, ('get', 'exists', 'select')[form], ra.name, tgt.ent, tgt.mid,
                                              '' if tgt.stored else ' unsaved')
        if not tgt.stored:
            self.probe('lookup_by_unsaved_reference')
        if form == 0:
            ok, got = self.read(what, lambda: P.get(**{ra.name: th}), exp_exc=core.MultipleObjectsFoundError)
            if not ok:
                if len(exp) <= 1:
                    self.viol('C10', 'spurious-multiple-objects', e.name,
                              '%s raised MultipleObjectsFoundError, view has %r' % (what, exp))
                return
            if len(exp) > 1:
                self.viol('C10', 'get-missed-multiple-objects', e.name, '%s returned %r although the view holds %r' % (what, got, exp))
                return
            gm = self.mid_of(got) if got is not None else None
            self.expect(what, gm, exp[0] if exp else None)
        elif form == 1:
            ok, got = self.read(what, lambda: P.exists(**{ra.name: th}))
            if ok:
                self.expect(what, got, bool(exp))
        else:
            ok, got = self.read(what, lambda: self.mids(P.select(**{ra.name: th})[:]))
            if ok:
                self.expect(what, got, exp)

    def op_r_select(self, a, b, c, count=False):
        order = self.ent_order()
        e = self.schema.by_name[order[a % len(order)]]
        P = self.E[e.name]
        attrs = [x for x in e.queryable() if not x.auto]
        at = attrs[b % len(attrs)]
        p = pool(e.name, at.name)
        val = p[c % len(p)]
        form = (c >> 4) % 4
        name = at.name
        if form == 0 or val is None:
            what = '%s %s.select()' % ('r_count' if count else 'r_select', e.name)
            q = lambda: P.select()
            exp = sorted(o.mid for o in self.view.live(e.name))
        elif form == 1:
            what = '%s %s.select(%s=%r)' % ('r_count' if count else 'r_select', e.name, name, val)
            q = lambda: P.select(**{name: val})
            exp = self._matching(e, at, val)
        elif form == 2:
            what = '%s select(x for x in %s if x.%s == %r)' % ('r_count' if count else 'r_select', e.name, name, val)
            q = lambda: select(x for x in P if getattr(x, name) == val)
            exp = self._matching(e, at, val)
        else:
            what = '%s %s.select(lambda x: x.%s == %r)' % ('r_count' if count else 'r_select', e.name, name, val)
            q = lambda: P.select(lambda x: getattr(x, name) == val)
            exp = self._matching(e, at, val)
        if count:
            ok, got = self.read(what, lambda: q().count())
            if ok:
                self.expect(what, got, len(exp))
        else:
            if self.knobs.get('prefetch'):
                rels = [getattr(P, x.name) for x in e.attrs if x.is_rel]
                what += ' .prefetch(all relations)'
                q0 = q
                q = lambda: q0().prefetch(*rels)
                self.probe('prefetch_used')
            ok, got = self.read(what, lambda: self.mids(q()[:]))
            if ok:
                self.expect(what, got, exp)

    def op_r_aggr(self, a, b, c):
        P = self.E['Person']
        vals = [o.vals.get('age') for o in self.view.live('Person') if o.vals.get('age') is not None]
        k = a % 3
        if k == 0:
            what = 'r_aggr sum(p.age for p in Person)'
            ok, got = self.read(what, lambda: orm.sum(p.age for p in P))
            exp = sum(vals)
        elif k == 1:
            what = 'r_aggr max(p.age for p in Person)'
            ok, got = self.read(what, lambda: orm.max(p.age for p in P))
            exp = max(vals) if vals else None
        else:
            what = 'r_aggr count(p for p in Person if p.age is not None)'
            ok, got = self.read(what, lambda: orm.count(p for p in P if p.age is not None))
            exp = len(vals)
        if ok:
            self.expect(what, got, exp)

    def op_r_coll(self, a, b, c):
        owners = [o for o in self.live_sorted() if self.schema.by_name[o.ent].sets()]
        if not owners:
            return
        mo = owners[a % len(owners)]
        e = self.schema.by_name[mo.ent]
        sa = e.sets()[b % len(e.sets())]
        self._probe_coll(mo, sa, c % 6, c)

    def _probe_coll(self, mo, sa, k, c, tag=''):
        if self.knobs.get('hook_mode') in ('modify', 'create', 'link', 'after_edit'):
            # hooks that edit data run inside the auto-flush a read may trigger: let that flush happen first, the
            # expected answer is computed from the model afterwards
            self.op_flush()
            if self.view.objs[mo.mid].deleted:
                return
        exp = sorted(self.view.partners(sa, mo.mid))
        h = self.handle_or_poison(mo.mid)
        base = 'r_coll %s#%d.%s%s' % (mo.ent, mo.mid, sa.name, tag)
        if k == 0:
            ok, got = self.read(base + ' len', lambda: len(getattr(h, sa.name)))
            if ok:
                self.expect(base + ' len', got, len(exp))
        elif k == 1:
            ok, got = self.read(base + ' count()', lambda: getattr(h, sa.name).count())
            if ok:
                self.expect(base + ' count()', got, len(exp))
        elif k == 2:
            ok, got = self.read(base + ' is_empty()', lambda: getattr(h, sa.name).is_empty())
            if ok:
                self.expect(base + ' is_empty()', got, not exp)
        elif k == 3:
            ok, got = self.read(base + ' iter', lambda: self.mids(list(getattr(h, sa.name))))
            if ok:
                self.expect(base + ' iter', got, exp)
        elif k == 4:
            cands = [o.mid for o in self.live_sorted(sa.rel)]
            if not cands:
                return
            it = cands[(c >> 3) % len(cands)]
            ih = self.handle_or_poison(it)
            ok, got = self.read(base + ' contains #%d' % it, lambda: ih in getattr(h, sa.name))
            if ok:
                self.expect(base + ' contains #%d' % it, got, it in exp)
        else:
            ok, got = self.read(base + ' select()', lambda: self.mids(getattr(h, sa.name).select()[:]))
            if ok:
                self.expect(base + ' select()', got, exp)

    def op_r_todict(self, a, b, c):
        mo = self.pick(a)
        if mo is None:
            return
        e = self.schema.by_name[mo.ent]
        h = self.handle_or_poison(mo.mid)
        what = 'r_todict %s#%d' % (mo.ent, mo.mid)
        ok, got = self.read(what, lambda: h.to_dict(with_collections=True, related_objects=True, with_lazy=True))
        if not ok:
            return
        self.refresh_pks()
        exp = {}
        g2 = {}
        for at in e.attrs:
            v = got.get(at.name, '<missing>')
            if at.is_set:
                exp[at.name] = sorted(self.view.partners(at, mo.mid))
                g2[at.name] = self.mids(v) if v != '<missing>' else v
            elif at.is_rel:
                exp[at.name] = self.view.get_one(at, mo.mid)
                g2[at.name] = (self.mid_of(v) if v is not None else None) if v != '<missing>' else v
            else:
                if at.is_pk and mo.pk is None:
                    continue
                exp[at.name] = self.view.objs[mo.mid].vals.get(at.name)
                g2[at.name] = v
        self.expect(what, g2, exp)

    # ------------------------------------------------------------------ control
    def flush_failed(self, e, where):
        """flush / commit raised: classify (C16) and remember that nothing of this transaction may persist"""
        self.probe('flush_failed')
        self.probe('flush_failed_' + type(e).__name__)
        if any(isinstance(x, core.UnresolvableCyclicDependency) for x in _chain(e)):
            self.cycle_error_seen = True       # C16, second clause: "... and the session's writes are not committed"
        self.hooks_check_window(False, where)
        self.hook_edits = []
        self.hook_created = []
        injected = any(getattr(x, 'ponysim_injected', None) for x in _chain(e))
        if injected:
            self.fault_fired_in_session = True
            return
        if self.dup_pending is not None:
            self.probe('duplicate_reported_at_flush')
            self.key_conflict_reported = True
            return
        integrity = isinstance(e, S.INTEGRITY) or any(isinstance(x, S.INTEGRITY) for x in _chain(e))
        if isinstance(e, (AssertionError, KeyError, AttributeError, IndexError, TypeError)):
            self.viol('C09', 'internal-error-at-flush', 'exc=%s' % type(e).__name__,
                      '%s failed with %s: %s\n%s' % (where, type(e).__name__, str(e)[:200], traceback.format_exc()[-800:]))
            return
        if self.session_clean and not self.fault_fired_in_session and not self.has_new_cycle() \
                and not self.has_stored_delete_cycle():
            self.viol('C16', 'orderable-flush-failed', 'exc=%s' % type(e).__name__,
                      '%s failed with %s: %s although the pending changes are consistent and can be ordered'
                      % (where, type(e).__name__, str(e)[:240]))

    def has_stored_delete_cycle(self):
        """reference cycle among rows that are to be deleted, through the foreign keys they hold in the database (as
        of the last flush): plain DELETEs cannot be ordered then"""
        # Pony also flushes on its own (before queries), and such a flush writes whatever the session held at
        # that moment: every foreign-key value a row had at any time since the last flush the engine knows of
        # can be what the database holds (fk_edges_seen, kept by note_fk_edges)
        self.note_fk_edges()
        dead = set(m for m, o in self.view.objs.items() if o.deleted)
        graph = dict((m, set()) for m in dead)
        for (src, dst) in self.fk_edges_seen:
            if src in dead and dst in dead:
                graph[src].add(dst)
        color = {}

        def dfs(n):
            color[n] = 1
            for m in graph[n]:
                if color.get(m) == 1 or (color.get(m) is None and dfs(m)):
                    return True
            color[n] = 2
            return False
        return any(color.get(n) is None and dfs(n) for n in sorted(graph))

    def note_fk_edges(self, reset=False):
        """(row, row it refers to) pairs through foreign-key columns, accumulated since the last known flush"""
        if reset or not hasattr(self, 'fk_edges_seen'):
            self.fk_edges_seen = set()
        for o in self.view.objs.values():
            if o.deleted:
                continue
            e = self.schema.by_name[o.ent]
            for ra in e.to_ones():
                if not getattr(self.E[e.name], ra.name).columns:
                    continue
                t = self.view.get_one(ra, o.mid)
                if t is not None:
                    self.fk_edges_seen.add((o.mid, t))

    def has_new_cycle(self):
        """reference cycle among not-yet-stored objects through foreign-key columns"""
        new = set(o.mid for o in self.view.live() if not o.stored)
        graph = {}
        for mid in new:
            e = self.schema.by_name[self.view.objs[mid].ent]
            outs = set()
            for ra in e.to_ones():
                P = getattr(self.E[e.name], ra.name)
                if not P.columns:
                    continue
                t = self.view.get_one(ra, mid)
                if t is not None and t in new:
                    outs.add(t)
            graph[mid] = outs
        color = {}

        def dfs(n):
            color[n] = 1
            for m in graph[n]:
                if color.get(m) == 1:
                    return True
                if color.get(m) is None and dfs(m):
                    return True
            color[n] = 2
            return False
        return any(color.get(n) is None and dfs(n) for n in sorted(graph))

    def op_flush(self):
        self.cur_op_desc = 'flush'
        cyc = self.has_new_cycle()
        try:
            flush()
        except Exception as e:
            self.flush_failed(e, 'flush()')
            raise S.Poisoned()
        if cyc:
            self.cycle_flushed = True       # judged when the transaction commits (committed_ok)
            self.probe('flush_accepted_cycle_among_new_objects')
        self.after_flush()

    def op_oflush(self, a, b, c, newest=False):
        """obj.flush(): saves one object (and the objects it depends on)"""
        mo = self.pick(a)
        if newest:
            # the object created last that is not stored yet (obj.flush() right after the constructor: the usual
            # way to learn an auto-incremented id)
            fresh = [o for o in self.live_sorted() if not o.stored and o.mid in self.handles]
            mo = fresh[-1] if fresh else None
            if newest == 'deleted':
                # ... or the stored object this session deleted last, its DELETE still pending
                gone = [o for m, o in sorted(self.view.objs.items()) if o.deleted and m in self.handles
                        and self.handles[m]._status_ == 'marked_to_delete']
                mo = gone[-1] if gone else None
        if mo is None:
            return
        h = self.handle_or_poison(mo.mid)
        self.cur_op_desc = 'oflush %s#%d.flush()' % (mo.ent, mo.mid)
        try:
            h.flush()
        except Exception as e:
            self.flush_failed(e, 'obj.flush()')
            raise S.Poisoned()
        self.trace.append('%s.%s OK   %s' % (self.sess_index, self.op_index, self.cur_op_desc))
        self.hooks_check_window(True, 'obj.flush()')
        self.refresh_pks()
        self.session_clean = False      # partial flush: the C16 must-succeed classification no longer applies
        self.probe('obj_flush')

    def after_flush(self):
        self.hooks_apply_to_model()
        self.hooks_check_window(True, 'flush')
        self.refresh_pks()
        for o in self.view.live():
            o.stored = True
        self.flushed = self.view.clone()
        self.note_fk_edges(reset=True)
        self.released_keys = set()
        self.taken_keys = set()
        self.session_clean = not self.fault_fired_in_session
        self.probe('flush_ok')

    def op_commit(self):
        self.cur_op_desc = 'commit'
        if self.has_new_cycle():
            self.cycle_flushed = True
        try:
            commit()
        except Exception as e:
            self.flush_failed(e, 'commit()')
            raise S.Poisoned()
        self.committed_ok('mid-session-commit')

    def committed_ok(self, when):
        self.after_flush()
        if self.dup_pending is not None:
            self.viol('C14', 'duplicate-key-committed', 'when=%s' % when,
                      'the session committed although %s is held by two objects of the session' % self.dup_pending)
            self.dup_pending = None
        self.committed = self.view.clone()
        for o in list(self.committed.objs.values()):
            if o.deleted:
                pass
        same = self.compare_db(self.committed, 'C09', 'committed-state-differs', when)
        if not same and self.cascaded:
            # C15: what a delete took with it by cascade must not survive the commit
            got_e = self.dump()[0]
            for ent, pk, desc in sorted(self.cascaded, key=repr):
                if pk in got_e.get(ent, {}) and not any(x.pk == pk for x in self.committed.live(ent)):
                    self.viol('C15', 'cascaded-row-left-in-database', ent,
                              '%s deleted %s%r by cascade (rule: cascade_delete / required dependent), the transaction '
                              'committed and the row is still there' % (desc, ent, pk))
        self.cascaded = set()
        if not same and getattr(self, 'cycle_flushed', False):
            # C16: a reference cycle among new objects that no statement order resolves has to be reported;
            # here the flush reported nothing and what was committed is not what the session held
            self.viol('C16', 'unorderable-cycle-saved-silently', when,
                      'new objects referred to each other in a cycle (or to themselves); flush / commit raised nothing '
                      'and the committed rows differ from the session\'s objects')
        self.cycle_flushed = False
        self.probe('commit_ok')

    def op_rollback(self):
        self.cur_op_desc = 'rollback'
        rollback()
        self.discard_session_state('mid-session-rollback')
        self.compare_db(self.committed, 'C09', 'rolled-back-changes-visible', 'mid-session-rollback')

    def discard_session_state(self, why):
        if self.handles:
            self.last_handles, self.last_view = dict(self.handles), self.view
        self.view = self.committed.clone()
        self.flushed = None
        self.note_fk_edges(reset=True)
        self.handles = {}
        self.h2m = {}
        self.dup_pending = None
        self.released_keys = set()
        self.taken_keys = set()
        self.session_clean = True
        self.fault_fired_in_session = False
        self.cycle_flushed = False
        self.cascaded = set()

    # ------------------------------------------------------------------ one session
    def run_session(self, si, sess):
        self.sess_index = si
        self.key_conflict_reported = False
        self.hook_window_start = len(simdb.ctx.events)
        self.hook_log_start = len(self.hook_log)
        self.hook_edits = []
        self.hook_created = []
        self.view = self.committed.clone()
        self.flushed = None
        self.handles = {}
        self.h2m = {}
        self.dup_pending = None
        self.session_clean = True
        self.fault_fired_in_session = False
        self.blind = False
        self.peer = None
        self.cascaded = set()
        self.stop_session = False
        self.cycle_flushed = False
        self.cycle_error_seen = False
        self.released_keys = set()
        self.taken_keys = set()
        opts = dict(sess.get('opts') or {})
        self.cur_session_opts = opts
        self.note_fk_edges(reset=True)
        policy = self.case.get('flush_policy', 'never')
        ended = 'exit'
        try:
            with db_session(**opts):
                self.db._get_cache()     # the session cache exists from the start (it is created lazily otherwise)
                for oi, op in enumerate(sess['ops']):
                    if self.stop_session:
                        break
                    self.op_index = oi
                    name, a, b, c = op[0], op[1], op[2], op[3]
                    if policy == 'always' or (policy == 'seeded' and S.mix(si, oi, self.case.get('seed', 0)) % 3 == 0):
                        if name not in CTL_OPS:
                            self.op_flush()
                    fo = self.case.get('fault_op')
                    if fo and fo[0] == si and fo[1] == oi:
                        simdb.ctx.gfaults[simdb.ctx.g + int(fo[2])] = fo[3]
                    g_before = simdb.ctx.g
                    if (self.blind or self.peer) and name in ('commit', 'rollback'):
                        name = 'flush'       # a carried-on session is rolled back at its end, nowhere else
                    if self.peer and name in ('bulk_del', 'peer', 'cycle', 'fail_probe', 'partial', 'chain', 'proxy_reuse'):
                        continue
                    try:
                        self.dispatch(name, a, b, c)
                    except S.Poisoned:
                        if not self.carry_on_after_fault(g_before):
                            raise
                    finally:
                        if name in MOD_OPS and simdb.ctx.g > g_before:
                            self.op_calls.append([si, oi, simdb.ctx.g - g_before])
                    self.after_op()
                self.op_index = 'end'
                if self.peer:
                    self.finish_peer_session()
                    raise CarriedOn()
                if self.blind:
                    # all-or-nothing: this session never committed, so nothing of it may be in the database
                    self.cur_op_desc = 'rollback after a caught database error'
                    rollback()
                    self.blind = False
                    self.discard_session_state('carried on after a fault, rolled back')
                    self.compare_db(self.committed, 'C09', 'rolled-back-changes-visible', 'caught-error-then-rollback')
                    self.probe('carried_on_session_rolled_back')
                    raise CarriedOn()
                ef = self.case.get('end_fault')
                if ef and ef[0] == si:
                    # the database fails while the session is ending: commit and the rollbacks that follow
                    left = [3]

                    def end_fault_hook(ev, kind=ef[1]):
                        if left[0] > 0 and ev['kind'] in ('commit', 'rollback') and ev['phase'] == 'main':
                            left[0] -= 1
                            simdb.ctx.gfaults[ev['g']] = kind
                    simdb.ctx.before_call = end_fault_hook
                    self.probe('session_end_fault_armed')
                end = sess.get('end', 'exit')
                if end == 'raise':
                    ended = 'raise'
                    raise S.Marker()
                elif end == 'rollback':
                    self.op_rollback()
                    ended = 'rollback'
                self.cur_op_desc = 'session exit'
                if self.view is not None and self.has_new_cycle():
                    self.cycle_flushed = True
            # normal exit: the session committed
            if ended == 'exit':
                self.committed_ok('session-exit')
                how = 'committed'
                self.last_handles, self.last_view = dict(self.handles), self.view
            else:
                how = 'rolled-back'
        except CarriedOn:
            how = 'rolled-back'
        except S.Marker:
            how = 'rolled-back'
            self.discard_session_state('body raised')
            self.compare_db(self.committed, 'C09', 'failed-session-changes-visible', 'session-raised')
        except S.Poisoned:
            how = 'failed'
            self.probe('session_poisoned')
            self.discard_session_state('poisoned')
            same = self.compare_db(self.committed, 'C09', 'failed-session-changes-visible', 'session-failed')
            if not same and getattr(self, 'cycle_error_seen', False):
                self.viol('C16', 'cycle-error-left-writes', 'session-failed',
                          'the flush raised UnresolvableCyclicDependency, yet part of what the failed session wrote is in '
                          'the database')
        except Exception as e:
            # the commit at session exit failed
            how = 'failed'
            self.flush_failed(e, 'commit at session exit')
            self.discard_session_state('exit commit failed')
            self.compare_db(self.committed, 'C09', 'failed-session-changes-visible', 'exit-commit-failed')
        finally:
            simdb.ctx.gfaults.clear()
            simdb.ctx.before_call = None
            self.blind = False
            self.peer = None
        if self.case.get('detached') and not core.local.db2cache and self.last_handles:
            self.detached_phase(si, self.last_handles, self.last_view, how, bool(opts.get('strict')))
        self.last_handles, self.last_view = {}, None
        leftover = core.local.db2cache
        if leftover:
            try:
                rollback()
            except Exception:
                pass

    def carry_on_after_fault(self, g_before):
        """case['after_fault'] == 'continue': the program catches the error of an injected database fault inside the
        session and goes on using the session (retries, other work); in the end it rolls back.  Atomicity (C17)
        then demands that nothing of the session is in the database.  Everything else is not judged (blind)."""
        if self.case.get('after_fault') != 'continue':
            return False
        if not self.blind:
            fired_now = any(f[0] >= g_before for f in simdb.ctx.fired)
            if not (self.fault_fired_in_session and fired_now):
                return False
        cache = core.local.db2cache.get(self.db)
        if cache is None or not cache.is_alive:
            return False            # the failure ended the session (commit failed, connection dropped): nothing to carry on
        self.blind = True
        self.probe('carried_on_after_fault')
        return True

    def dispatch(self, name, a, b, c):
        if name.startswith('r_') and self.knobs.get('hook_mode') in ('modify', 'create', 'link', 'after_edit'):
            # hooks that edit data run inside the auto-flush a read may trigger; the expected answer is
            # computed from the model before the read, so let the (always legal) flush happen first
            self.op_flush()
        if name == 'new':
            self.op_new(a, b, c)
        elif name == 'set':
            self.op_set(a, b, c)
        elif name == 'set_none':
            self.op_set(a, b, c, none=True)
        elif name == 'setpk':
            self.op_setpk(a, b, c)
        elif name == 'setmany':
            self.op_setmany(a, b, c)
        elif name == 'late_link':
            self.op_late_link(a, b, c)
        elif name == 'setmix':
            self.op_setmix(a, b, c)
        elif name == 'seq_probe':
            self.op_seq_probe(a, b, c)
        elif name == 'rel':
            self.op_rel(a, b, c)
        elif name in ('add', 'remove', 'clear', 'assign'):
            self.op_coll(name, a, b, c)
        elif name == 'create_in':
            self.op_create_in(a, b, c)
        elif name == 'raw_log':
            if not self.knobs.get('hook_mode'):
                self.op_raw_log(a, b, c)
        elif name == 'oflush':
            self.op_oflush(a, b, c)
        elif name == 'oflush_new':
            self.op_oflush(a, b, c, newest=True)
        elif name == 'oflush_del':
            self.op_oflush(a, b, c, newest='deleted')
        elif name == 'seq_in':
            self.op_seq_in(a, b, c)
        elif name == 'new_rawfk':
            self.op_new_rawfk(a, b, c)
        elif name == 'del':
            self.op_del(a, b, c)
        elif name == 'del_ref':
            self.op_del_ref(a, b, c)
        elif name == 'bulk_del':
            # (inside a ddl session SQLite's foreign keys are switched off on purpose: no ON DELETE actions there)
            if not self.knobs.get('hook_mode') and not self.cur_session_opts.get('ddl'):
                self.op_bulk_del(a, b, c)
        elif name == 'peer':
            self.op_peer(a, b, c)
        elif name == 'jedit':
            self.op_jedit(a, b, c)
        elif name == 'cycle':
            if not self.knobs.get('hook_mode'):
                self.op_cycle(a, b, c)
        elif name == 'chain':
            if self.knobs.get('hook_mode') not in ('modify', 'create', 'link', 'after_edit'):
                self.op_chain(a, b, c)
        elif name == 'partial':
            if self.knobs.get('hook_mode') not in ('modify', 'create', 'link', 'after_edit'):
                self.op_partial(a, b, c)
        elif name == 'fail_probe':
            if self.knobs.get('hook_mode') not in ('modify', 'create', 'link', 'after_edit'):
                self.op_fail_probe(a, b, c)
        elif name == 'flush':
            self.op_flush()
        elif name == 'commit':
            self.op_commit()
        elif name == 'rollback':
            self.op_rollback()
        elif name == 'r_attr':
            self.op_r_attr(a, b, c)
        elif name == 'r_pk':
            self.op_r_pk(a, b, c)
        elif name == 'r_proxy':
            self.op_r_proxy(a, b, c)
        elif name == 'proxy_reuse':
            if not self.knobs.get('hook_mode'):
                self.op_proxy_reuse(a, b, c)
        elif name == 'r_get':
            self.op_r_get(a, b, c)
        elif name == 'r_exists':
            self.op_r_get(a, b, c, exists=True)
        elif name == 'r_getrel':
            self.op_r_getrel(a, b, c)
        elif name == 'r_select':
            self.op_r_select(a, b, c)
        elif name == 'r_count':
            self.op_r_select(a, b, c, count=True)
        elif name == 'r_aggr':
            self.op_r_aggr(a, b, c)
        elif name == 'r_coll':
            self.op_r_coll(a, b, c)
        elif name == 'r_todict':
            self.op_r_todict(a, b, c)
        else:
            raise ValueError('unknown op %r' % name)


def _chain(e):
    from .conc import _chain as ch
    return ch(e)


def run_case(case, scratch, cls=None):
    c = simdb.ctx
    run = (cls or Interp)(case, scratch)
    run.cur_op_desc = 'setup'
    c.phase = 'setup'
    run.build()
    if hasattr(run, 'before_main'):
        run.before_main()
    n_setup = len(c.events)
    c.g = 0
    c.thread_k = {}
    c.phase = 'main'
    for g, kind in case.get('faults', ()):
        c.gfaults[int(g)] = kind
    for si, sess in enumerate(case['sessions']):
        run.run_session(si, sess)
    c.phase = 'post'
    try:
        run.db.disconnect()
    except Exception:
        pass
    if hasattr(run, 'after_main'):
        run.after_main()
    if run.knobs.get('dbkind') == 'shared':
        # Pony never closes the connection of an in-memory database: close the real handles so that the
        # database goes away with the run
        for pc in list(c.conns):
            try:
                pc._real.close()
            except Exception:
                pass
    if case.get('retag_as'):
        # the same oracles under another regime are another property's evidence: under loading knobs C23
        # (observed data must not depend on the loading strategy), under crash / error injection C17
        label = case.get('retag_label', 'under-loading-knobs')
        for v in list(run.violations):
            if v['prop'] in tuple(case.get('retag_from') or ('C09', 'C10', 'C11', 'C12')):
                run.violations.append({'prop': case['retag_as'], 'key': '%s|%s|%s' % (case['retag_as'], label, v['key']),
                                       'detail': v['detail'] + ' [knobs %r]' % (case.get('knobs'),)})
    main_events = [ev for ev in c.events[n_setup:]]
    digest = hsh([[ev['g'], ev['kind'], ev.get('sql'), ev.get('params'), ev.get('rows'), ev.get('fault'),
                   ev.get('exc')] for ev in main_events] + [sorted(v['key'] for v in run.violations)])
    fired = c.fired + run.peer_fired
    n_mod = run.probes.get('modification_accepted', 0)
    return {
        'violations': run.violations,
        'fired': fired,
        'digest': digest,
        'sig': hsh([case.get('variant'), case['sessions'], case.get('flush_policy'), case.get('knobs'),
                    case.get('fault_op'), case.get('faults'), case.get('after_fault')]),
        'nontrivial': n_mod >= 2 and run.probes.get('commit_ok', 0) + run.probes.get('session_poisoned', 0) >= 1,
        'probes': run.probes,
        'trace': run.trace if case.get('want_trace') else None,
        'op_calls': run.op_calls if case.get('want_op_calls') else None,
        'calls': [[ev['g'], ev['kind'], (ev.get('sql') or '')[:40]] for ev in main_events
                  if ev['phase'] == 'main'] if case.get('want_calls') else None,
        'states': sorted(run.states),
        'stats': {'db_calls': len(main_events)},
        'sample': {'variant': case.get('variant'), 'flush_policy': case.get('flush_policy'),
                   'sessions': case['sessions'][:3], 'knobs': case.get('knobs')},
    }


def shrink(case):
    sess = case['sessions']
    for i in range(len(sess)):
        if len(sess) > 1:
            c = dict(case)
            c['sessions'] = sess[:i] + sess[i + 1:]
            yield c
    for i, s in enumerate(sess):
        ops = s['ops']
        n = len(ops)
        size = max(1, n // 2)
        while True:
            for j in range(0, n, size):
                c = dict(case)
                s2 = dict(s)
                s2['ops'] = ops[:j] + ops[j + size:]
                if len(s2['ops']) < n:
                    c['sessions'] = sess[:i] + [s2] + sess[i + 1:]
                    yield c
            if size == 1:
                break
            size = max(1, size // 2)
    if case.get('flush_policy', 'never') != 'never':
        c = dict(case)
        c['flush_policy'] = 'never'
        yield c
    if case.get('knobs'):
        for k in sorted(case['knobs']):
            c = dict(case)
            kn = dict(case['knobs'])
            del kn[k]
            c['knobs'] = kn
            yield c
