"""Lifecycle-hook instrumentation and oracle of the SEQ engine (C33).

Every entity gets before_/after_ insert/update/delete methods that call back into
the engine.  Hook events carry the global DB-API call counter at the time they
ran, so they interleave with the INSERT/UPDATE/DELETE statements recorded by
the DB proxy: the oracle works on that merged history.
"""
from .. import simdb

EVENTS = ('before_insert', 'before_update', 'before_delete', 'after_insert', 'after_update', 'after_delete')

HOOK_SRC = '\n'.join('    def %s(self): HOOK(self, %r)' % (e, e) for e in EVENTS)

MARK = {('Person', 'nick'): 'hk', ('Car', 'seats'): 9, ('Course', 'credits'): 7, ('Group', 'title'): 'hk',
        ('Passport', 'country'): 'hk'}


class HooksMixin(object):

    def hooks_setup(self, ns):
        self.hook_mode = self.knobs.get('hook_mode')
        self.hook_log = []          # (g, event, entity, id(obj))
        self.hook_edits = []        # (id(obj), attr, value) made inside before_* hooks, applied to the model after the flush
        self.hook_created = []      # Log objects created inside hooks
        self.hook_window_start = 0  # index into simdb.ctx.events
        self.hook_log_start = 0
        self.in_hook = 0
        ns['HOOK'] = self.on_hook

    def hook_sources(self):
        if not self.knobs.get('hook_mode'):
            return {}
        return dict((e.name, HOOK_SRC) for e in self.schema.entities)

    def on_hook(self, obj, event):
        en = type(obj).__name__
        self.hook_log.append((simdb.ctx.g, event, en, id(obj)))
        self.probe('hook_' + event)
        mode = self.hook_mode
        if mode == 'log' or self.in_hook:
            return
        self.in_hook += 1
        try:
            if mode == 'read' and event in ('before_insert', 'before_update'):
                # read own attributes that are already in memory (an unloaded attribute would be fetched with a
                # query, and outside the save round a query flushes the whole session from inside the hook)
                P = type(obj)
                for a in self.schema.by_name[en].scalars():
                    if not a.is_pk and getattr(P, a.name) in obj._vals_:
                        getattr(obj, a.name)
            elif mode == 'modify' and event in ('before_insert', 'before_update'):
                for (e2, attr), val in MARK.items():
                    if e2 == en and getattr(obj, attr) != val:
                        setattr(obj, attr, val)
                        # the edit is part of the session view from this moment on
                        mid = self.h2m.get(id(obj))
                        if mid is not None and mid in self.view.objs and not self.view.objs[mid].deleted:
                            self.view.objs[mid].vals[attr] = val
                        self.probe('hook_modified_attribute')
            elif mode == 'link' and event in ('before_insert', 'before_update') and en == 'Person':
                # edit a many-to-many collection from inside the hook: the link must be written by the same flush
                pmid = self.h2m.get(id(obj))
                if pmid is not None and pmid in self.view.objs and not self.view.objs[pmid].deleted:
                    ca = self.schema.by_name['Person'].by_name['courses']
                    have = self.view.partners(ca, pmid)
                    for cmid in sorted(self.handles):
                        mo = self.view.objs.get(cmid)
                        if mo is not None and mo.ent == 'Course' and not mo.deleted and cmid not in have:
                            obj.courses.add(self.handles[cmid])
                            self.view.link(ca, pmid, cmid)
                            self.probe('hook_linked_many_to_many')
                            break
            elif mode == 'after_edit' and event in ('after_insert', 'after_update'):
                # an after_* hook edits ANOTHER object of the session (typically one saved in the same round whose
                # own after_* hook has not run yet): that object's hook must still run, and the edit is saved by
                # the next round of the same flush.  Only values already in memory are looked at (no query).
                for mid2 in sorted(self.handles):
                    h2 = self.handles[mid2]
                    mo2 = self.view.objs.get(mid2)
                    if h2 is obj or mo2 is None or mo2.deleted or h2._vals_ is None:
                        continue
                    if h2._status_ not in ('loaded', 'inserted', 'updated', 'modified'):
                        continue
                    done = False
                    for (e2, attr), val in MARK.items():
                        if e2 != mo2.ent:
                            continue
                        a2 = getattr(type(h2), attr)
                        if a2 in h2._vals_ and h2._vals_[a2] != val:
                            setattr(h2, attr, val)
                            mo2.vals[attr] = val
                            self.probe('after_hook_edited_other_object')
                            done = True
                    if done:
                        break
            elif mode == 'create' and event == 'before_insert' and en in ('Person', 'Car'):
                self.hook_counter = getattr(self, 'hook_counter', 0) + 1
                msg = 'hook%d_%s' % (self.hook_counter, self.sess_index)
                lg = self.E['Log'](msg=msg)
                from ..sessmodel import MObj
                mid = self.new_mid()
                mo = MObj(mid, 'Log')
                mo.vals = {'id': None, 'msg': msg}
                self.view.objs[mid] = mo
                self.register(mid, lg)
                self.probe('hook_created_object')
        finally:
            self.in_hook -= 1

    # ------------------------------------------------------------------ model side
    def hooks_apply_to_model(self):
        """called after a flush that returned normally"""
        from ..sessmodel import MObj
        for oid, attr, val in self.hook_edits:
            mid = self.h2m.get(oid)
            if mid is not None and mid in self.view.objs and not self.view.objs[mid].deleted:
                self.view.objs[mid].vals[attr] = val
        self.hook_edits = []
        for lg, msg in self.hook_created:
            mid = self.new_mid()
            mo = MObj(mid, 'Log')
            mo.vals = {'id': None, 'msg': msg}
            self.view.objs[mid] = mo
            self.register(mid, lg)
        self.hook_created = []

    # ------------------------------------------------------------------ oracle over the merged history
    def hooks_check_window(self, flush_ok, where):
        if not self.knobs.get('hook_mode'):
            return
        events = simdb.ctx.events[self.hook_window_start:]
        self.hook_window_start = len(simdb.ctx.events)
        hooks = self.hook_log[self.hook_log_start:]
        self.hook_log_start = len(self.hook_log)
        # (single-table inheritance: statements and hooks are counted per table, under the name of the root entity)
        root = dict((e.name, self.E[e.name]._root_.__name__) for e in self.schema.entities)
        tables = dict((self.E[e.name]._table_, root[e.name]) for e in self.schema.entities)
        timeline = []       # (g, order, what...)  hooks that ran when the counter was g precede DB call g
        for (g, event, en, oid) in hooks:
            timeline.append((g, 0, 'hook', event, root.get(en, en), oid))
        for ev in events:
            if ev.get('kind') != 'execute' or ev.get('phase') != 'main':
                continue
            sql = ev.get('sql') or ''
            kind = None
            if sql.startswith('INSERT INTO "'):
                kind, t = 'insert', sql.split('"')[1]
            elif sql.startswith('UPDATE "'):
                kind, t = 'update', sql.split('"')[1]
            elif sql.startswith('DELETE FROM "'):
                kind, t = 'delete', sql.split('"')[1]
            if kind and t in tables:
                timeline.append((ev['g'], 1, 'stmt', kind, tables[t], 'exc' not in ev))
        timeline.sort(key=lambda x: (x[0], x[1]))
        # one segment = one save round of Pony's flush loop: before hooks, statements, after hooks
        segments = []
        cur = None
        for item in timeline:
            is_before = item[2] == 'hook' and item[3].startswith('before_')
            if cur is None or (is_before and cur['dirty']):
                cur = {'items': [], 'dirty': False}
                segments.append(cur)
            cur['items'].append(item)
            if not is_before:
                cur['dirty'] = True
        for si, seg in enumerate(segments):
            complete = flush_ok or si < len(segments) - 1
            self._check_segment(seg['items'], complete, where)

    def _check_segment(self, items, complete, where):
        shape_base = 'mode=%s' % self.hook_mode
        ents = sorted(set(i[4] for i in items))
        for en in ents:
            for kind in ('insert', 'update', 'delete'):
                st_all = [i for i in items if i[2] == 'stmt' and i[3] == kind and i[4] == en]
                st_ok = [i for i in st_all if i[5]]
                bef = [i for i in items if i[2] == 'hook' and i[3] == 'before_' + kind and i[4] == en]
                aft = [i for i in items if i[2] == 'hook' and i[3] == 'after_' + kind and i[4] == en]
                if not st_all and not bef and not aft:
                    continue
                sh = '%s|%s|%s' % (en, kind, shape_base)
                if len(bef) < len(st_all):
                    self.viol('C33', 'statement-without-before-hook', sh,
                              '%s: %d %s statement(s) for %s were sent but only %d before_%s hook(s) ran in that save round'
                              % (where, len(st_all), kind.upper(), en, len(bef), kind))
                if complete and len(bef) > len(st_all):
                    self.viol('C33', 'before-hook-without-statement', sh,
                              '%s: %d before_%s hook(s) ran for %s but %d statement(s) were sent'
                              % (where, len(bef), kind, en, len(st_all)))
                ids = [h[5] for h in bef]
                if len(set(ids)) != len(ids):
                    self.viol('C33', 'before-hook-ran-twice', sh,
                              '%s: before_%s ran twice for one %s object within one save round' % (where, kind, en))
                ids = [h[5] for h in aft]
                if len(set(ids)) != len(ids):
                    self.viol('C33', 'after-hook-ran-twice', sh,
                              '%s: after_%s ran twice for one %s object within one save round' % (where, kind, en))
                if complete and len(aft) != len(st_ok):
                    self.viol('C33', 'after-hook-count-differs', sh,
                              '%s: %d %s statement(s) for %s succeeded but %d after_%s hook(s) ran'
                              % (where, len(st_ok), kind.upper(), en, len(aft), kind))
                if not complete and len(aft) > len(st_ok):
                    self.viol('C33', 'after-hook-for-failed-statement', sh,
                              '%s: %d after_%s hook(s) ran for %s but only %d statement(s) succeeded'
                              % (where, len(aft), kind, en, len(st_ok)))
                if st_all and bef and min(s[0] for s in st_all) < min(h[0] for h in bef):
                    self.viol('C33', 'statement-before-its-before-hook', sh,
                              '%s: a %s statement for %s was sent before any before_%s hook had run'
                              % (where, kind.upper(), en, kind))
                if st_ok and aft and min(h[0] for h in aft) <= min(s[0] for s in st_ok):
                    self.viol('C33', 'after-hook-before-statement', sh,
                              '%s: an after_%s hook for %s ran before the first %s statement' % (where, kind, en, kind.upper()))
