"""SESS engine (C18): db_session forms x options x scripted bodies against an executable
specification of the documented commit / retry rule.

case = {'engine': 'sess', 'form': 'with'|'decorator'|'generator'|'async'|'flask'|'bottle',
        'opts': {'retry': n, 'allowed': 'none'|'list'|'callable'|'callable_raises',
                 'retry_exc': 'default'|'list'|'callable', 'flags': {...}},
        'script': [[action, ...], ...]      # script[k] = actions of the k-th execution of the body (last one repeats)
        'drive': 'iterate'|'throw:<Exc>@k'|'close@k'|'abandon@k'   (generator / async forms)}

actions: ['mark'] ['flush'] ['commit'] ['rollback'] ['yield'] ['raise', name] ['fault', kind]
         ['nested', flagsname, [actions]]
"""
import gc
import os
import sys
import types
import warnings

from pony import orm
from pony.orm import core
from pony.orm import db_session, select, commit, rollback, flush

from .. import simdb, procstate
from ..harness import hsh


class AllowedErr(Exception):
    pass


class AllowedSub(AllowedErr):
    pass


class RetryErr(Exception):
    pass


class OtherErr(Exception):
    pass


class ShouldRetryErr(Exception):
    should_retry = True


class AllowedShouldRetryErr(AllowedErr):
    """allowed (a subclass of the allowed class) and retryable (should_retry) at once"""
    should_retry = True


EXC = {
    'Allowed': AllowedErr, 'AllowedSub': AllowedSub, 'Retry': RetryErr, 'Other': OtherErr,
    'Txn': core.OptimisticCheckError, 'ShouldRetry': ShouldRetryErr, 'AllowedShouldRetry': AllowedShouldRetryErr,
    'KbInt': KeyboardInterrupt,
    'GenExit': GeneratorExit, 'HTTPResponse': None, 'HTTPError': None,
}

NESTED_FLAGS = {
    'plain': {}, 'immediate': {'immediate': True}, 'serializable': {'serializable': True},
    'strict': {'strict': True}, 'nonopt': {'optimistic': False}, 'ddl': {'ddl': True},
}


# --------------------------------------------------------------------------- stub web frameworks

def install_stub_frameworks():
    """flask and bottle are not installed in this sandbox: minimal stand-ins with the documented
    calling conventions (recorded as 'stub' in the evidence)."""
    if 'flask' not in sys.modules or not getattr(sys.modules['flask'], '_ponysim_stub', False):
        flask = types.ModuleType('flask')
        flask._ponysim_stub = True
        flask.request = types.SimpleNamespace()

        class Flask(object):
            def __init__(self, name='app'):
                self.before = []
                self.teardown = []

            def before_request(self, f):
                self.before.append(f)
                return f

            def teardown_request(self, f):
                self.teardown.append(f)
                return f

            def dispatch(self, view):
                """one request: before_request functions, the view, then teardown functions which
                receive the exception instance (or None) - Flask's documented convention"""
                exc = None
                rv = None
                try:
                    for f in self.before:
                        f()
                    rv = view()
                except BaseException as e:
                    exc = e
                for f in reversed(self.teardown):
                    f(exc)
                if exc is not None:
                    raise exc
                return rv
        flask.Flask = Flask
        sys.modules['flask'] = flask
    if 'bottle' not in sys.modules or not getattr(sys.modules['bottle'], '_ponysim_stub', False):
        bottle = types.ModuleType('bottle')
        bottle._ponysim_stub = True

        class HTTPResponse(Exception):
            pass

        class HTTPError(HTTPResponse):
            pass
        bottle.HTTPResponse = HTTPResponse
        bottle.HTTPError = HTTPError
        sys.modules['bottle'] = bottle
    EXC['HTTPResponse'] = sys.modules['bottle'].HTTPResponse
    EXC['HTTPError'] = sys.modules['bottle'].HTTPError


# --------------------------------------------------------------------------- executable specification

class Outcome(object):
    def __init__(self):
        self.committed = set()
        self.execs = 0
        self.exc = None            # name of the propagated exception class, or None
        self.ambiguous = False     # the documentation does not determine the outcome
        self.alt = None            # alternative acceptable (committed, execs, exc) when ambiguous
        self.alts = []             # further acceptable outcomes of an ambiguous case (None: nothing is known)
        self.illegal = None        # 'TypeError' when the combination must be rejected


def exc_matches(name, kind, opts):
    """does exception `name` count as allowed / retryable under opts"""
    if name in ('KbInt', 'GenExit'):
        base = False
    if kind == 'allowed':
        a = opts.get('allowed', 'none')
        if a == 'none':
            return False
        if a == 'bottle':
            return name == 'HTTPResponse'
        if a in ('list', 'callable'):
            return name in ('Allowed', 'AllowedSub', 'AllowedShouldRetry')
        return False
    r = opts.get('retry_exc', 'default')
    if name in ('ShouldRetry', 'AllowedShouldRetry'):
        return True
    if r == 'default':
        return name in ('Txn', 'CommitFailed', 'NestErr')
    if r in ('list', 'callable'):
        return name == 'Retry'
    return False


class SpecRaise(Exception):
    def __init__(self, name):
        self.name = name


def spec_actions(actions, st, outer_flags, depth=0):
    """symbolic execution of one body; st = {'pending': set, 'committed': set, 'fault': kind|None, 'n': counter}"""
    for act in actions:
        op = act[0]
        if op == 'mark':
            st['n'] += 1
            st['pending'].add('m%d_%d' % (st['exec'], st['n']))
        elif op == 'flush':
            pass
        elif op == 'commit':
            if st['fault']:
                st['fault'] = None
                st['pending'] = set()
                raise SpecRaise('CommitFailed')
            st['committed'] |= st['pending']
            st['pending'] = set()
        elif op == 'rollback':
            st['pending'] = set()
        elif op == 'fault':
            st['fault'] = act[1]
        elif op == 'raise':
            raise SpecRaise(act[1])
        elif op == 'nested':
            flags = NESTED_FLAGS[act[1]]
            if flags.get('ddl') and not outer_flags.get('ddl'):
                raise SpecRaise('NestErr')
            if flags.get('serializable') and not outer_flags.get('serializable'):
                raise SpecRaise('NestErr')
            spec_actions(act[2], st, outer_flags, depth + 1)
        elif op == 'yield':
            # generator forms: changes must be committed before the generator is suspended
            if st['pending']:
                st['pending'] = set()
                raise SpecRaise('NestErr')
            y = st.get('yields', 0)
            st['yields'] = y + 1
            drive = st.get('drive', 'iterate')
            if drive != 'iterate':
                kind, _, at = drive.partition('@')
                if y == int(at or 0):
                    if kind.startswith('throw:'):
                        raise SpecRaise(kind.split(':', 1)[1])
                    raise SpecStop()
        else:
            raise ValueError(op)


class SpecStop(Exception):
    """the caller closed / abandoned the generator at a yield"""


def spec(case):
    """Expected outcome of the call according to the documented rule (see DESIGN 5, C18)."""
    form = case['form']
    opts = case.get('opts') or {}
    flags = dict(opts.get('flags') or {})
    script = case['script']
    retry = int(opts.get('retry', 0))
    out = Outcome()
    allowed = opts.get('allowed', 'none')
    rexc = opts.get('retry_exc', 'default')
    # ---- legality (documented TypeErrors)
    if retry and flags.get('ddl'):
        out.illegal = 'TypeError'
        return out
    if form == 'with' and retry:
        out.illegal = 'TypeError'
        return out
    if form in ('generator', 'async') and (retry or flags.get('ddl') or flags.get('serializable')):
        out.illegal = 'TypeError'
        return out
    st = {'pending': set(), 'committed': set(), 'fault': None, 'n': 0, 'exec': 0, 'drive': case.get('drive', 'iterate')}
    attempts = retry + 1 if form == 'decorator' or form == 'bottle' else 1
    last_exc = None
    for k in range(attempts):
        st['exec'] = k
        st['n'] = 0
        st['pending'] = set()
        out.execs += 1
        actions = script[min(k, len(script) - 1)]
        try:
            spec_actions(actions, st, flags)
            # body finished normally: commit
            if st['fault']:
                st['fault'] = None
                st['pending'] = set()
                if form in ('decorator', 'bottle'):
                    # the decorator commits inside its try block: a failing commit is handled like an
                    # exception of the body (retry / allowed_exceptions apply)
                    raise SpecRaise('CommitFailed')
                out.committed = set(st['committed'])
                out.exc = 'CommitFailed'
                return out
            st['committed'] |= st['pending']
            st['pending'] = set()
            out.committed = set(st['committed'])
            out.exc = None
            return out
        except SpecStop:
            out.committed = set(st['committed'])
            out.exc = None
            return out
        except SpecRaise as e:
            name = e.name
            last_exc = name
            is_allowed = exc_matches(name, 'allowed', opts)
            is_retry = exc_matches(name, 'retry', opts) if form in ('decorator', 'bottle') else False
            if allowed == 'callable_raises' and not is_retry:
                # the allowed_exceptions callable itself raises: nothing is committed, its error propagates
                st['pending'] = set()
                out.committed = set(st['committed'])
                out.exc = 'CallableBoom'
                return out
            if is_allowed and is_retry:
                # allowed and retryable at once: which of the two wins is not documented.  Acceptable: (A) retryable
                # wins throughout - nothing of a failed attempt is kept; (B) the same, but when the retries are used
                # up the last attempt is committed as an allowed one; (C) allowed wins - the first such attempt is
                # committed and the exception propagates without a re-run.  What no reading permits: an attempt
                # that is re-run AND kept ("each attempt starting from the committed state").
                out.ambiguous = True
                if not st['fault'] and not out.alts:
                    out.alts.append((set(st['committed']) | set(st['pending']), out.execs, name))      # (C)
            if allowed == 'callable_raises' and is_retry:
                out.ambiguous = True     # does a failing allowed_exceptions callable abort the retry loop? undocumented
                out.alts = None
            if is_retry:
                pend = set(st['pending'])
                st['pending'] = set()
                if k + 1 < attempts:
                    continue
                out.committed = set(st['committed'])
                out.exc = name
                if is_allowed and not st['fault'] and out.alts is not None:
                    out.alts.append((set(st['committed']) | pend, out.execs, name))                    # (B)
                return out
            if is_allowed:
                # commit what the body did, the exception still propagates
                if st['fault']:
                    st['fault'] = None
                    st['pending'] = set()
                    out.committed = set(st['committed'])
                    out.exc = 'CommitFailed'
                    return out
                st['committed'] |= st['pending']
            st['pending'] = set()
            out.committed = set(st['committed'])
            out.exc = name
            return out
    out.committed = set(st['committed'])
    out.exc = last_exc
    return out


# --------------------------------------------------------------------------- the real thing

class Runner(object):
    def __init__(self, case, scratch):
        self.case = case
        self.scratch = scratch
        self.execs = 0
        self.seen = []
        self.marks = 0
        self.fault_armed = None

    def build(self):
        db = self.db = orm.Database()

        class M(db.Entity):
            tag = orm.Required(str, unique=True)

        class Hub(db.Entity):
            spokes = orm.Set('Spoke')

        class Spoke(db.Entity):
            tag = orm.Required(str, unique=True)
            hubs = orm.Set(Hub)
        self.M, self.Hub, self.Spoke = M, Hub, Spoke
        self.path = os.path.join(self.scratch, 'sess.sqlite')
        db.bind('sqlite', self.path, create_db=True, timeout=0)
        db.generate_mapping(create_tables=True)
        procstate.register_db(db)
        self.link_marks = self.case.get('marks') == 'links'
        if self.link_marks:
            # marks are many-to-many links between rows that exist already: a body that only links saves no
            # object at all, its statements go to the link table alone
            with db_session:
                Hub()
                for k in range(6):
                    for n in range(1, 25):
                        Spoke(tag='m%d_%d' % (k, n))

        def before_call(ev):
            if self.fault_armed and ev['kind'] == 'commit' and ev['phase'] == 'main':
                kind = self.fault_armed
                self.fault_armed = None
                simdb.ctx.gfaults[ev['g']] = kind
        simdb.ctx.before_call = before_call

    def run_actions(self, actions, k):
        for act in actions:
            op = act[0]
            if op == 'mark':
                self.marks += 1
                if self.link_marks:
                    self.Hub[1].spokes.add(self.Spoke.get(tag='m%d_%d' % (k, self.marks)))
                else:
                    self.M(tag='m%d_%d' % (k, self.marks))
            elif op == 'flush':
                flush()
            elif op == 'commit':
                commit()
            elif op == 'rollback':
                rollback()
            elif op == 'fault':
                self.fault_armed = act[1]
            elif op == 'raise':
                raise EXC[act[1]]('scripted %s' % act[1])
            elif op == 'nested':
                with db_session(**NESTED_FLAGS[act[1]]):
                    self.run_actions(act[2], k)
            elif op == 'yield':
                raise RuntimeError('yield outside generator form')

    def body_plain(self):
        k = self.execs
        self.execs += 1
        self.marks = 0
        self.seen.append(sorted(select(m.tag for m in self.M)[:]))
        script = self.case['script']
        self.run_actions(script[min(k, len(script) - 1)], k)
        return 'rv'

    def make_kwargs(self):
        opts = self.case.get('opts') or {}
        kw = dict(opts.get('flags') or {})
        if opts.get('retry'):
            kw['retry'] = int(opts['retry'])
        a = opts.get('allowed', 'none')
        if a == 'list':
            kw['allowed_exceptions'] = [AllowedErr]
        elif a == 'callable':
            kw['allowed_exceptions'] = lambda e: isinstance(e, AllowedErr)
        elif a == 'callable_raises':
            def boom(e):
                raise CallableBoom('allowed_exceptions callable failed')
            kw['allowed_exceptions'] = boom
        r = opts.get('retry_exc', 'default')
        if r == 'list':
            kw['retry_exceptions'] = [RetryErr]
        elif r == 'callable':
            kw['retry_exceptions'] = lambda e: isinstance(e, RetryErr)
        return kw

    # ---- forms
    def call(self):
        form = self.case['form']
        kw = self.make_kwargs()
        if form == 'with':
            with db_session(**kw):
                return self.body_plain()
        if form == 'decorator':
            f = db_session(**kw)(self.body_plain) if kw else db_session(self.body_plain)
            return f()
        if form == 'flask':
            install_stub_frameworks()
            import flask
            import importlib
            pf = importlib.import_module('pony.flask')
            app = flask.Flask()
            pf.Pony(app)
            return app.dispatch(self.body_plain)
        if form == 'bottle':
            install_stub_frameworks()
            import importlib
            bp = importlib.import_module('pony.orm.integration.bottle_plugin')
            wrapped = bp.PonyPlugin().apply(self.body_plain, None)
            return wrapped()
        if form in ('generator', 'async'):
            return self.call_generator(kw, form)
        raise ValueError(form)

    def call_generator(self, kw, form):
        script = self.case['script'][0]
        runner = self

        def gen_body():
            k = runner.execs
            runner.execs += 1
            runner.marks = 0
            runner.seen.append(sorted(select(m.tag for m in runner.M)[:]))
            for act in script:
                if act[0] == 'yield':
                    yield 'y'
                elif act[0] == 'nested':
                    with db_session(**NESTED_FLAGS[act[1]]):
                        runner.run_actions(act[2], k)
                else:
                    runner.run_actions([act], k)

        if form == 'generator':
            g = (db_session(**kw)(gen_body) if kw else db_session(gen_body))()
        else:
            class Pause(object):
                def __await__(self):
                    yield 'y'

            async def co_body():
                k = runner.execs
                runner.execs += 1
                runner.marks = 0
                runner.seen.append(sorted(select(m.tag for m in runner.M)[:]))
                for act in script:
                    if act[0] == 'yield':
                        await Pause()
                    elif act[0] == 'nested':
                        with db_session(**NESTED_FLAGS[act[1]]):
                            runner.run_actions(act[2], k)
                    else:
                        runner.run_actions([act], k)
            g = (db_session(**kw)(co_body) if kw else db_session(co_body))()
        drive = self.case.get('drive', 'iterate')
        step = 0
        if drive == 'iterate':
            try:
                while True:
                    g.send(None)
                    step += 1
            except StopIteration:
                return 'done'
        kind, _, at = drive.partition('@')
        at = int(at or 0)
        try:
            while step <= at:
                g.send(None)
                step += 1
        except StopIteration:
            return 'done'
        if kind.startswith('throw:'):
            name = kind.split(':', 1)[1]
            try:
                g.throw(EXC[name]('thrown %s' % name))
                while True:
                    g.send(None)
            except StopIteration:
                return 'done'
        elif kind == 'close':
            g.close()
            return 'closed'
        elif kind == 'abandon':
            del g
            gc.collect()
            return 'abandoned'
        raise ValueError(drive)


class CallableBoom(Exception):
    pass


def classify(e):
    if e is None:
        return None
    if isinstance(e, CallableBoom):
        return 'CallableBoom'
    for name in ('AllowedSub', 'Allowed', 'Retry', 'Other', 'ShouldRetry', 'AllowedShouldRetry'):
        if type(e) is EXC[name]:
            return name
    if isinstance(e, KeyboardInterrupt):
        return 'KbInt'
    if isinstance(e, GeneratorExit):
        return 'GenExit'
    b = sys.modules.get('bottle')
    if b is not None and getattr(b, '_ponysim_stub', False):
        if type(e) is b.HTTPError:
            return 'HTTPError'
        if type(e) is b.HTTPResponse:
            return 'HTTPResponse'
    if isinstance(e, core.CommitException) or (isinstance(e, core.TransactionError) and
                                               any(getattr(x, 'ponysim_injected', None) for x in _chain(e))):
        return 'CommitFailed'
    if type(e) is core.OptimisticCheckError:
        return 'Txn'
    if isinstance(e, core.TransactionError):
        return 'NestErr'
    if isinstance(e, TypeError):
        return 'TypeError'
    return type(e).__name__


def _chain(e):
    from .conc import _chain as ch
    return ch(e)


def run_case(case, scratch):
    c = simdb.ctx
    r = Runner(case, scratch)
    c.phase = 'setup'
    install_stub_frameworks()
    r.build()
    r.db.disconnect()
    c.phase = 'main'
    c.g = 0
    exc = None
    with warnings.catch_warnings():
        warnings.simplefilter('ignore')
        try:
            r.call()
        except BaseException as e:
            exc = e
    c.phase = 'post'
    leftovers = []
    if core.local.db2cache:
        leftovers.append('db2cache not empty')
        try:
            rollback()
        except Exception:
            pass
    if core.local.db_session is not None or core.local.db_context_counter:
        leftovers.append('db_session state leaked')
    con = simdb.raw_connect(r.path)
    try:
        if r.link_marks:
            got = set(x[0] for x in con.execute('select s.tag from Spoke s, Hub_Spoke l where l.spoke = s.id').fetchall())
        else:
            got = set(x[0] for x in con.execute('select tag from M').fetchall())
    finally:
        con.close()
    try:
        r.db.disconnect()
    except Exception:
        pass
    exp = spec(case)
    got_exc = classify(exc)
    violations = []
    form = case['form']
    shape = 'form=%s|%s' % (form, _shape(case))

    def viol(sub, detail):
        key = 'C18|%s|%s' % (sub, shape)
        violations.append({'prop': 'C18', 'key': key, 'detail': '%s; case %r' % (detail, {k: case[k] for k in ('form', 'opts', 'script', 'drive') if k in case})})

    if exp.illegal:
        if got_exc != exp.illegal:
            viol('illegal-combination-accepted', 'the documented rule rejects this combination with %s, got %r'
                 % (exp.illegal, got_exc))
        elif got:
            viol('rejected-combination-committed', 'rejected combination left rows %r' % sorted(got))
    else:
        acceptable = [(exp.committed, exp.execs, exp.exc)]
        if exp.ambiguous:
            acceptable = None
            if exp.alts and (got, r.execs, got_exc) not in [(exp.committed, exp.execs, exp.exc)] + exp.alts:
                viol('wrong-outcome-for-allowed-and-retryable',
                     'rows %r after %d execution(s), exception %r: none of the readings of "allowed and retryable" gives '
                     'that (acceptable: %r)' % (sorted(got), r.execs, got_exc,
                                                [(sorted(c_), n_, e_) for c_, n_, e_ in [(exp.committed, exp.execs, exp.exc)] + exp.alts]))
        if acceptable is not None:
            if got != exp.committed:
                missing, extra = sorted(exp.committed - got), sorted(got - exp.committed)
                viol('wrong-rows-committed', 'committed rows differ: missing %r, unexpected %r (exception %r, %d executions)'
                     % (missing, extra, got_exc, r.execs))
            if r.execs != exp.execs:
                viol('wrong-number-of-executions', 'body ran %d times, the rule says %d (exception %r)'
                     % (r.execs, exp.execs, got_exc))
            if got_exc != exp.exc:
                viol('wrong-exception-propagated', 'propagated %r (%s), the rule says %r'
                     % (got_exc, str(exc)[:120], exp.exc))
        # every attempt starts from the committed state
        for k, seen in enumerate(r.seen):
            bad = [t for t in seen if t.startswith('m') and int(t[1:].split('_')[0]) >= k]
            if bad:
                viol('attempt-saw-uncommitted-rows', 'execution %d saw rows %r of a failed attempt' % (k, bad))
    if leftovers:
        viol('session-state-left-behind', '; '.join(leftovers))
    digest = hsh([[ev['g'], ev['kind'], ev.get('sql'), ev.get('fault'), ev.get('exc')] for ev in c.events if ev['phase'] == 'main']
                 + [sorted(got), r.execs, got_exc])
    return {
        'violations': violations,
        'fired': c.fired,
        'digest': digest,
        'sig': hsh([case.get('form'), case.get('opts'), case.get('script'), case.get('drive'), case.get('marks')]),
        'nontrivial': True,
        'probes': {'ambiguous_cases': int(exp.ambiguous), 'illegal_cases': int(bool(exp.illegal)),
                   'retries_executed': max(0, r.execs - 1), 'commit_fault_fired': len(c.fired),
                   'exception_propagated': int(exc is not None)},
        'got': [sorted(got), r.execs, got_exc],
        'expected': [sorted(exp.committed), exp.execs, exp.exc, exp.illegal, exp.ambiguous],
        'sample': {'form': form, 'opts': case.get('opts'), 'script': case.get('script'), 'drive': case.get('drive'),
                   'got': [sorted(got), r.execs, got_exc]},
    }


def _shape(case):
    opts = case.get('opts') or {}
    raised = []

    def walk(actions):
        for a in actions:
            if a[0] == 'raise':
                raised.append(a[1])
            elif a[0] == 'fault':
                raised.append('fault')
            elif a[0] == 'nested':
                raised.append('nested:' + a[1])
                walk(a[2])
    for s in case['script']:
        walk(s)
    return 'retry=%s|allowed=%s|retry_exc=%s|flags=%s|events=%s|drive=%s%s' % (
        opts.get('retry', 0), opts.get('allowed', 'none'), opts.get('retry_exc', 'default'),
        ','.join(sorted((opts.get('flags') or {}).keys())) or '-', ','.join(raised[:4]) or '-', case.get('drive', '-'),
        '|marks=links' if case.get('marks') == 'links' else '')


def shrink(case):
    script = case['script']
    if len(script) > 1:
        for i in range(len(script)):
            c = dict(case)
            c['script'] = script[:i] + script[i + 1:]
            yield c
    for i, s in enumerate(script):
        for j in range(len(s)):
            c = dict(case)
            c['script'] = script[:i] + [s[:j] + s[j + 1:]] + script[i + 1:]
            yield c
