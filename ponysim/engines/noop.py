"""Trivial engine used for zygote warm-up and protocol tests."""
import os


def run_case(case, scratch):
    from pony import orm
    from .. import simdb
    simdb.ctx.reset()
    db = orm.Database()

    class W(db.Entity):
        x = orm.Required(int)

    db.bind('sqlite', os.path.join(scratch, 'warm.sqlite'), create_db=True, timeout=0)
    db.generate_mapping(create_tables=True)
    with orm.db_session:
        W(x=1)
        orm.commit()
        n = orm.select(w for w in W).count()
    db.disconnect()
    return {'ok': True, 'n': n, 'events': len(simdb.ctx.events), 'echo': case.get('echo')}
