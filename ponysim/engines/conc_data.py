"""Data-centred CONC modes: c20 (optimistic lost updates), c21 (repeatable reads),
c35 (for_update / serializable vs. writers and an external raw writer),
c14 (concurrent key collisions).  Registered into conc.MODES."""
import sqlite3

from pony.orm import core
from pony.orm import db_session, select, commit, rollback, flush

from .. import simdb, simsched
from . import conc
from .conc import Mode, build_bank, populate_bank, dump_bank, exc_str, register

CHECKED = ('bal', 'note', 'cap')     # attributes covered by optimistic checks
ATTRS = ('bal', 'note', 'rate', 'hits', 'tick', 'cap')
NAMES = ('acct0', 'acct1', 'acct2')

ISOLATION_ERRORS = (core.OptimisticCheckError, core.UnrepeatableReadError)


def is_isolation_error(e):
    return any(isinstance(x, ISOLATION_ERRORS) for x in conc._chain(e))


def initial_store():
    st = {}
    for i, n in enumerate(NAMES):
        st[n] = {'bal': 100, 'note': 'n%d' % i, 'rate': 1.5, 'hits': 0, 'tick': 0, 'cap': None}
    return st


def store_from_dump(d):
    st = {}
    for (id_, name, bal, note, rate, hits, tick, cap) in d['Acct']:
        st[name] = {'bal': bal, 'note': note, 'rate': rate, 'hits': hits, 'tick': tick, 'cap': cap}
    return st


class SessionRec(object):
    def __init__(self, sid, thread, kind):
        self.sid = sid
        self.thread = thread
        self.kind = kind
        self.reads = {}        # (name, attr) -> [values] observed from the database through the object
        self.over = set()      # (name, attr) overwritten by the session
        self.pending = {}      # (name, attr) -> value written, not yet committed
        self.created = {}      # name -> attr dict, created and not yet committed
        self.locked = set()    # names locked for update / created in the current transaction
        self.flushed = set()   # names whose pending writes were already sent (reads after that are not counted)
        self.dirty = set()     # names with pending writes not yet flushed
        self.start_commits = 0
        self.outcome = None
        self.fault_hit = False
        self.steps_done = 0


@register
class C20(Mode):
    name = 'c20'
    prop = 'C20'

    def setup(self):
        self.db, self.ns, self.path = build_bank(self.scratch, self.knobs.get('cache_size'))
        self.Acct = self.ns['Acct']
        populate_bank(self.ns)
        self.db.disconnect()
        self.store = initial_store()
        self.commits = 0
        self.sessions = []
        self.uid = 0
        self.current = {}
        simdb.ctx.after_call = self.after_db_call

    def after_db_call(self, ev):
        # the model moves exactly when a real COMMIT of an open transaction returns successfully
        if ev['kind'] == 'commit' and ev.get('in_tx') and 'exc' not in ev and ev['phase'] == 'main':
            rec = self.current.get(ev['t'])
            if rec is not None:
                self._apply_commit(rec)
        elif ev['kind'] == 'execute' and ev['phase'] == 'main' and (ev.get('sql') or '').startswith('UPDATE'):
            # Pony flushed (explicitly or automatically before a query): reads made from now on come
            # after the UPDATE statement of the dirty objects and are not part of its read set
            rec = self.current.get(ev['t'])
            if rec is not None:
                self._mark_flush(rec)

    # -- helpers
    def _obj(self, rec, handles, name):
        if name in handles:
            return handles[name]
        o = self.Acct.get(name=name)
        handles[name] = o
        return o

    def _mark_flush(self, rec):
        rec.flushed |= rec.dirty
        rec.dirty = set()

    def _apply_commit(self, rec):
        """the session's transaction was committed: oracle O1, then move writes into the model"""
        self.commits += 1
        touched = set(n for (n, a) in rec.pending) | set(rec.created)
        for n in sorted(touched):
            if n in rec.created:
                continue
            # (an object locked for update is not exempt: what the session read from it BEFORE the lock has to be
            # compared when the locking fetch returns the row - it raises, or the values were still the same - and
            # after the lock nobody else can commit a change, so at commit every recorded read still has to hold)
            cur = self.store.get(n)
            if cur is None:
                continue
            for (rn, attr), vals in sorted(rec.reads.items()):
                if rn != n or attr not in CHECKED or (rn, attr) in rec.over:
                    continue
                for v in vals:
                    if cur[attr] != v:
                        self.viol('stale-read-update-applied', 'attr=%s|kind=%s' % (attr, rec.kind),
                                  'session %d (%s, thread %s) read %s.%s = %r, another session committed %r, yet its '
                                  'update of %s (%s) was committed' % (rec.sid, rec.kind, rec.thread, n, attr, v,
                                                                       cur[attr], n, sorted(a for (x, a) in rec.pending if x == n)))
                        break
        for n, attrs in rec.created.items():
            self.store[n] = dict(attrs)
        for (n, attr), v in rec.pending.items():
            if n in self.store:
                self.store[n][attr] = v
        rec.pending = {}
        rec.created = {}
        rec.locked = set()
        rec.flushed = set()
        rec.dirty = set()
        # values the session wrote are now the database values it knows
        self.probe('commits')

    def run_session(self, tname, sess):
        self.uid += 1
        rec = SessionRec(self.uid, tname, sess.get('kind', 'opt'))
        rec.start_commits = self.commits
        self.sessions.append(rec)
        self.current[tname] = rec
        handles = {}
        fired0 = len(simdb.ctx.fired)
        Acct = self.Acct
        try:
            with db_session:
                for si, st in enumerate(sess['steps']):
                    self.op_yield()
                    op = st[0]
                    if op == 'load':
                        self._obj(rec, handles, NAMES[st[1] % 3])
                    elif op == 'read':
                        n = NAMES[st[1] % 3]
                        attr = ATTRS[st[2] % len(ATTRS)]
                        o = self._obj(rec, handles, n)
                        if o is None:
                            continue
                        v = getattr(o, attr)
                        if (n, attr) not in rec.over and n not in rec.flushed and n not in rec.created:
                            rec.reads.setdefault((n, attr), []).append(v)
                    elif op == 'read_dict':
                        # the documented bulk getter: to_dict() reads the attributes it returns
                        n = NAMES[st[1] % 3]
                        attr = ATTRS[st[2] % len(ATTRS)]
                        o = self._obj(rec, handles, n)
                        if o is None:
                            continue
                        d = o.to_dict(only=[attr]) if (st[1] + st[2]) % 2 else o.to_dict()
                        for k in ATTRS:
                            if k in d and (n, k) not in rec.over and n not in rec.flushed and n not in rec.created:
                                rec.reads.setdefault((n, k), []).append(d[k])
                    elif op == 'write':
                        n = NAMES[st[1] % 3]
                        attr = ATTRS[st[2] % len(ATTRS)]
                        o = self._obj(rec, handles, n)
                        if o is None:
                            continue
                        val = rec.sid * 1000 + si
                        if attr == 'note':
                            val = 's%d' % val
                        elif attr == 'rate':
                            val = float(val) + 0.5
                        elif attr == 'cap' and si % 2:
                            val = None
                        setattr(o, attr, val)
                        rec.over.add((n, attr))
                        rec.pending[(n, attr)] = val
                        rec.dirty.add(n)
                    elif op == 'rmw':
                        # note := f(bal)  -- reads one checked attribute, writes another
                        n = NAMES[st[1] % 3]
                        o = self._obj(rec, handles, n)
                        if o is None:
                            continue
                        src, dst = ('bal', 'note') if st[2] % 2 == 0 else ('note', 'bal')
                        v = getattr(o, src)
                        if (n, src) not in rec.over and n not in rec.flushed and n not in rec.created:
                            rec.reads.setdefault((n, src), []).append(v)
                        val = ('from:%s:%d' % (v, rec.sid * 1000 + si)) if dst == 'note' else rec.sid * 1000 + si
                        setattr(o, dst, val)
                        rec.over.add((n, dst))
                        rec.pending[(n, dst)] = val
                        rec.dirty.add(n)
                    elif op == 'incr':
                        n = NAMES[st[1] % 3]
                        attr = ('bal', 'hits', 'tick')[st[2] % 3]
                        o = self._obj(rec, handles, n)
                        if o is None:
                            continue
                        v = getattr(o, attr)
                        setattr(o, attr, v + 1)
                        rec.over.add((n, attr))
                        rec.pending[(n, attr)] = v + 1
                        rec.dirty.add(n)
                    elif op == 'flush':
                        flush()
                        self._mark_flush(rec)
                    elif op == 'query':
                        lst = select(a for a in Acct)[:]
                        self._mark_flush(rec)
                        for a in lst:
                            handles.setdefault(a.name, a)
                    elif op == 'lock':
                        n = NAMES[st[1] % 3]
                        o = Acct.get_for_update(name=n)
                        self._mark_flush(rec)
                        handles[n] = o
                        if o is not None:
                            rec.locked.add(n)
                    elif op == 'commit':
                        commit()
                    rec.steps_done = si + 1
            rec.outcome = 'committed'
        except simsched.SimAbort:
            raise
        except BaseException as e:
            rec.outcome = 'failed:' + type(e).__name__
            rec.exc = e
            rec.fault_hit = len(simdb.ctx.fired) > fired0 and any(f[1] == tname for f in simdb.ctx.fired[fired0:])
            if is_isolation_error(e):
                self.probe('optimistic_or_repeatable_error')
                if self.commits == rec.start_commits and not rec.fault_hit and not simdb.ctx.fired:
                    self.viol('spurious-isolation-error', 'exc=%s|kind=%s' % (type(e).__name__, rec.kind),
                              'session %d failed with %s although no other session committed during its lifetime'
                              % (rec.sid, exc_str(e)))
        self.obs.setdefault(tname, []).append([rec.sid, rec.outcome, rec.steps_done])

    def thread_body(self, name, prog):
        for sess in prog:
            self.run_session(name, sess)
        try:
            self.db.disconnect()
        except simsched.SimAbort:
            raise
        except BaseException:
            pass

    def check(self, outcome):
        if outcome != 'all-finished':
            self.viol('deadlock', 'outcome=%s' % outcome, 'threads did not finish: %r' % (self.sched.deadlock_info,))
            return
        got = store_from_dump(dump_bank(self.path))
        if got != self.store:
            diff = []
            for n in sorted(set(got) | set(self.store)):
                if got.get(n) != self.store.get(n):
                    diff.append((n, self.store.get(n), got.get(n)))
            self.viol('final-state-differs', 'sessions=%s' % '/'.join(sorted(set(r.outcome for r in self.sessions))),
                      'database differs from the replay of committed sessions (expected, got): %r' % (diff[:3],))


conc.MODES['c20'] = C20


# ---------------------------------------------------------------------------
# c21: repeated reads return the same value or fail loudly

ITEM_ATTRS = ('tag', 'qty', 'acct')
ACCT_RATTRS = ('bal', 'note', 'rate', 'hits', 'name', 'cap')


@register
class C21(Mode):
    name = 'c21'
    prop = 'C21'

    def setup(self):
        self.db, self.ns, self.path = build_bank(self.scratch, self.knobs.get('cache_size'))
        self.Acct, self.Item, self.Tag = self.ns['Acct'], self.ns['Item'], self.ns['Tag']
        populate_bank(self.ns)
        self.db.disconnect()
        self.uid = 0
        self.reader_sessions = []     # list of observation lists
        self.writer_commits = 0

    # ---- reader
    def reader_session(self, tname, sess):
        Acct, Item = self.Acct, self.Item
        obs = []
        self.reader_sessions.append(obs)
        acc = {}
        items = {}

        def A(i):
            n = NAMES[i % 3]
            if n not in acc:
                acc[n] = Acct.get(name=n)
            return acc[n]

        def I(k):
            k = 1 + k % 6
            if k not in items:
                items[k] = Item.get(id=k)
            return items[k]

        def rec_attr(o, attr):
            v = getattr(o, attr)
            if isinstance(v, core.Entity):
                v = ('E', v._pkval_)
            obs.append(['attr', type(o).__name__, o._pkval_, attr, v])

        kind = sess.get('kind', 'opt')
        kw = {}
        if kind == 'serializable':
            kw['serializable'] = True
        elif kind == 'nonopt':
            kw['optimistic'] = False
        try:
            with db_session(**kw):
                for st in sess['steps']:
                    self.op_yield()
                    op = st[0]
                    if op == 'get':
                        A(st[1])
                    elif op == 'attr':
                        o = A(st[1])
                        if o is not None:
                            rec_attr(o, ACCT_RATTRS[st[2] % len(ACCT_RATTRS)])
                    elif op == 'tick':
                        o = A(st[1])
                        if o is not None:
                            o.tick      # volatile: may change freely, not recorded
                    elif op == 'item_attr':
                        o = I(st[1])
                        if o is not None:
                            rec_attr(o, ITEM_ATTRS[st[2] % 3])
                    elif op == 'sel':
                        for a in select(a for a in Acct)[:]:
                            acc.setdefault(a.name, a)
                    elif op == 'sel_items':
                        for i in select(i for i in Item)[:]:
                            items.setdefault(i.id, i)
                    elif op == 'sel_one':
                        n = NAMES[st[1] % 3]
                        lst = select(a for a in Acct if a.name == n)[:]
                        for a in lst:
                            acc.setdefault(a.name, a)
                    elif op == 'load':
                        o = A(st[1])
                        if o is not None:
                            o.load()
                    elif op == 'lock_get':
                        # the row is fetched again, this time locked (SQLite: the session turns immediate); what the
                        # session has read from it before must still hold, or the fetch has to fail loudly
                        n = NAMES[st[1] % 3]
                        o = Acct.get_for_update(name=n)
                        if o is not None:
                            acc.setdefault(n, o)
                    elif op == 'lock_sel':
                        n = NAMES[st[1] % 3]
                        lst = select(a for a in Acct if a.name == n).for_update()[:] if st[2] % 2 else \
                            select(a for a in Acct).for_update()[:]
                        for a in lst:
                            acc.setdefault(a.name, a)
                    elif op == 'prefetch':
                        for a in select(a for a in Acct).prefetch(Acct.items)[:]:
                            acc.setdefault(a.name, a)
                    elif op == 'prefetch_tags':
                        # the many-to-many collections of all items fetched by the prefetch loader (its own code
                        # path, not Set.load): what was observed before must still hold or the query has to fail
                        for i in select(i for i in Item).prefetch(Item.tags)[:]:
                            items.setdefault(i.id, i)
                    elif op == 'items_iter':
                        o = A(st[1])
                        if o is not None:
                            obs.append(['coll', 'Acct', o._pkval_, 'items', 'full', sorted(i._pkval_ for i in o.items)])
                    elif op == 'items_len':
                        o = A(st[1])
                        if o is not None:
                            obs.append(['coll', 'Acct', o._pkval_, 'items', 'len', len(o.items)])
                    elif op == 'items_count':
                        o = A(st[1])
                        if o is not None:
                            obs.append(['coll', 'Acct', o._pkval_, 'items', 'count', o.items.count()])
                    elif op == 'items_empty':
                        o = A(st[1])
                        if o is not None:
                            obs.append(['coll', 'Acct', o._pkval_, 'items', 'empty', o.items.is_empty()])
                    elif op == 'items_in':
                        o = A(st[1])
                        it = I(st[2])
                        if o is not None and it is not None:
                            obs.append(['coll', 'Acct', o._pkval_, 'items', 'in', [it._pkval_, it in o.items]])
                    elif op == 'tags_iter':
                        it = I(st[1])
                        if it is not None:
                            obs.append(['coll', 'Item', it._pkval_, 'tags', 'full', sorted(t._pkval_ for t in it.tags)])
                    elif op == 'tags_len':
                        it = I(st[1])
                        if it is not None:
                            obs.append(['coll', 'Item', it._pkval_, 'tags', 'len', len(it.tags)])
                    elif op == 'nav':
                        it = I(st[1])
                        if it is not None:
                            a = it.acct
                            obs.append(['attr', 'Item', it._pkval_, 'acct', ('E', a._pkval_)])
                            rec_attr(a, 'name')
                    elif op == 'card':
                        # one-to-one, read from the side without the column
                        o = A(st[1])
                        if o is not None:
                            rec_attr(o, 'card')
                    elif op == 'card_acct':
                        # ... and from the side with it (loading a card tells the account it names)
                        cd = self.ns['Card'].get(code='c%d' % (st[2] % 4))
                        if cd is not None:
                            rec_attr(cd, 'acct')
                    elif op == 'flush':
                        flush()
                    elif op == 'commit':
                        # a mid-session commit ends the transaction (writers may get in again), not the session:
                        # what was observed so far must still read the same or fail loudly
                        commit()
                    elif op == 'own_write':
                        o = A(st[1])
                        if o is not None:
                            attr = ('bal', 'note')[st[2] % 2]
                            self.uid += 1
                            val = 50000 + self.uid if attr == 'bal' else 'own%d' % self.uid
                            setattr(o, attr, val)
                            obs.append(['own', 'Acct', o._pkval_, attr, val])
                obs.append(['end', 'ok'])
        except simsched.SimAbort:
            raise
        except BaseException as e:
            obs.append(['end', 'error', exc_str(e)])

    # ---- writers
    def writer_session(self, tname, sess):
        Acct, Item, Tag = self.Acct, self.Item, self.Tag
        try:
            with db_session:
                for st in sess['steps']:
                    op = st[0]
                    self.uid += 1
                    u = self.uid
                    if op == 'upd':
                        a = Acct.get(name=NAMES[st[1] % 3])
                        if a is not None:
                            attr = ('bal', 'note', 'rate', 'hits', 'tick', 'cap', 'cap')[st[2] % 7]
                            val = {'bal': 70000 + u, 'note': 'w%d' % u, 'rate': u + 0.25, 'hits': 80000 + u,
                                   'tick': 90000 + u, 'cap': (40000 + u) if (a.cap is None or u % 3) else None}[attr]
                            setattr(a, attr, val)
                    elif op == 'upd_item':
                        i = Item.get(id=1 + st[1] % 6)
                        if i is not None:
                            if st[2] % 2:
                                i.tag = 'wt%d' % u
                            else:
                                i.qty = 60000 + u
                    elif op == 'move':
                        i = Item.get(id=1 + st[1] % 6)
                        a = Acct.get(name=NAMES[st[2] % 3])
                        if i is not None and a is not None:
                            i.acct = a
                    elif op == 'relink':
                        # one-to-one: a card goes to another account (whose previous card is set free)
                        cd = self.ns['Card'].get(code='c%d' % (st[2] % 4))
                        a = Acct.get(name=NAMES[st[1] % 3])
                        if cd is not None and a is not None:
                            cd.acct = a
                    elif op == 'del_item':
                        i = Item.get(id=1 + st[1] % 6)
                        if i is not None:
                            i.delete()
                    elif op == 'new_item':
                        a = Acct.get(name=NAMES[st[1] % 3])
                        if a is not None:
                            Item(acct=a, tag='new%d' % u, qty=u)
                    elif op == 'tag_add':
                        i = Item.get(id=1 + st[1] % 6)
                        t = Tag.get(name='t%d' % (st[2] % 2))
                        if i is not None and t is not None:
                            i.tags.add(t)
                    elif op == 'tag_remove':
                        i = Item.get(id=1 + st[1] % 6)
                        t = Tag.get(name='t%d' % (st[2] % 2))
                        if i is not None and t is not None:
                            i.tags.remove(t)
            self.writer_commits += 1
            self.probe('writer_commits')
        except simsched.SimAbort:
            raise
        except BaseException as e:
            self.probe('writer_failed')

    def thread_body(self, name, prog):
        for sess in prog:
            if sess.get('role') == 'reader':
                self.reader_session(name, sess)
            else:
                self.writer_session(name, sess)
        try:
            self.db.disconnect()
        except simsched.SimAbort:
            raise
        except BaseException:
            pass

    def check(self, outcome):
        if outcome != 'all-finished':
            self.viol('deadlock', 'outcome=%s' % outcome, 'threads did not finish: %r' % (self.sched.deadlock_info,))
            return
        for obs in self.reader_sessions:
            seen = {}
            full = {}
            for o in obs:
                if o[0] == 'end':
                    break
                if o[0] == 'own':
                    seen[(o[1], o[2], o[3])] = o[4]
                elif o[0] == 'attr':
                    k = (o[1], o[2], o[3])
                    if k in seen and seen[k] != o[4]:
                        self.probe('changed_read')
                        self.viol('attribute-changed-silently', '%s.%s' % (o[1], o[3]),
                                  '%s[%r].%s was read as %r and later as %r in the same session without an error'
                                  % (o[1], o[2], o[3], seen[k], o[4]))
                    seen.setdefault(k, o[4])
                elif o[0] == 'coll':
                    k = (o[1], o[2], o[3])
                    how, val = o[4], o[5]
                    prev = full.get(k)
                    if prev is not None:
                        bad = None
                        if how == 'full':
                            if prev[0] == 'full' and prev[1] != val:
                                bad = 'content %r then %r' % (prev[1], val)
                            elif prev[0] == 'len' and prev[1] != len(val):
                                bad = 'len %r then content %r' % (prev[1], val)
                        elif how in ('len', 'count'):
                            n = len(prev[1]) if prev[0] == 'full' else prev[1]
                            if n != val:
                                bad = '%s %r after %s %r' % (how, val, prev[0], prev[1])
                        elif how == 'empty':
                            n = len(prev[1]) if prev[0] == 'full' else prev[1]
                            if (n == 0) != bool(val):
                                bad = 'is_empty()=%r after %s %r' % (val, prev[0], prev[1])
                        elif how == 'in' and prev[0] == 'full':
                            if (val[0] in prev[1]) != bool(val[1]):
                                bad = '%r in collection = %r after content %r' % (val[0], val[1], prev[1])
                        if bad:
                            self.viol('collection-changed-silently', '%s.%s|%s' % (o[1], o[3], how),
                                      '%s[%r].%s: %s in the same session without an error' % (o[1], o[2], o[3], bad))
                    if how == 'full':
                        full[k] = ('full', val)
                    elif how == 'len' and prev is None:
                        full[k] = ('len', val)
            if obs and obs[-1][0] == 'end' and obs[-1][1] == 'error' and 'UnrepeatableRead' in obs[-1][2]:
                self.probe('unrepeatable_read_raised')
        self.obs['readers'] = [[list(map(repr, o)) for o in obs] for obs in self.reader_sessions]


conc.MODES['c21'] = C21
