"""Engine registry.  An engine module exposes run_case(case, scratch) -> dict."""
import importlib

NAMES = ('shapes', 'conc', 'seq', 'crash', 'sess', 'fork', 'qcache', 'noop')
_mods = {}


def get(name):
    m = _mods.get(name)
    if m is None:
        m = importlib.import_module('ponysim.engines.' + name)
        _mods[name] = m
    return m


def preload():
    for n in NAMES:
        try:
            get(n)
        except ModuleNotFoundError as e:
            if ('ponysim.engines.' + n) not in str(e):
                raise


def warmup(scratch):
    get('noop').run_case({'engine': 'noop'}, scratch)


def run_case(case, scratch):
    return get(case['engine']).run_case(case, scratch)
