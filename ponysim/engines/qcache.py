"""QCACHE engine (C05): differential cache-loss injection.

The same history of query executions (sharing code objects and source strings while
varying parameter values and types), raw SQL, in-session modifications and session
boundaries is executed three times on identical fresh databases: caches never dropped,
every cache dropped before every operation (the reference: always cold), and a seeded
subset of caches dropped at seeded points.  Cache loss is always legal, so the three
observation sequences must be identical.

case = {'engine': 'qcache', 'seed': int, 'sessions': [[op, a, b, c], ...] per session, 'policies': [...]}
"""
import datetime
import os

from pony import orm
from pony.orm import core
from pony.orm import db_session, select, commit, rollback, flush, raw_sql, count, exists, desc

from .. import simdb, procstate
from ..harness import hsh
from ..prng import Rng
from .conc import build_bank, populate_bank

ENTITY_CACHES = ('_find_sql_cache_', '_load_sql_cache_', '_batchload_sql_cache_', '_insert_sql_cache_',
                 '_update_sql_cache_', '_delete_sql_cache_')
GROUPS = ('process', 'database', 'entity', 'attr', 'session')

PARAM_VALUES = [0, 1, 50, 100, 150, 100.0, 99.5, 'n1', 'acct2', '', None, True, (100, 150), (50,), (1, 2, 3), 'zz', -1]
ONEOFF_QUERIES = [
    "select(x.id for x in Acct if x.bal > %(n)d * 50).order_by(1)[:]",
    "select(x.id for x in Acct if x.bal < %(n)d * 50).order_by(1)[:]",
    "select(x.id for x in Acct if x.bal == %(n)d * 50).order_by(1)[:]",
    "select(x.id for x in Acct if x.bal != %(n)d * 50).order_by(1)[:]",
    "select(x.id for x in Acct if x.id >= %(n)d).order_by(1)[:]",
    "select(x.id for x in Acct if x.id <= %(n)d).order_by(1)[:]",
    "select(i.id for i in Item if i.qty > %(n)d).order_by(1)[:]",
    "select(i.id for i in Item if i.qty < %(n)d).order_by(1)[:]",
    "Acct.select(lambda x: x.id > %(n)d).order_by(Acct.id)[:]",
    "Acct.select(lambda x: x.id < %(n)d).order_by(Acct.id)[:]",
]
SLICES = [(0, 2), (1, 3), (0, 10), (2, 2), (-2, None), (None, 3), (1, None), (0, -1), (-3, -1)]
RAW_SQLS = [
    'select id, bal from Acct where bal >= $x order by id',
    'select name from Acct where id = $x or id = $(x+1) order by id',
    'select name from Acct where name like $y order by id',
    "select name from Acct where name like 'acct%' order by id",
    "select '$$x' as lit, id from Acct where id = $x",
    'select count(*) from Item where qty % 2 = $x',
    "select id from Acct where note = $y or $y is null order by id",
]
ADAPT_SQLS = [
    'select * from T where a = $x and b = $y',
    'select a % 2 from T where a = $x',
    'select a %% 2 from T where a = $x',
    "select '$$' || name from T where id = $(x + 1)",
    'select 1 from T where a = $x and b = $x;',
    "select * from T where s like 'a%' and t = $y",
]
STYLES = ['qmark', 'format', 'numeric', 'named', 'pyformat']


THRESH = 100


def _big(x):
    # hybrid function inlined into queries; reads a module global whose value and type the histories change
    return x.bal > THRESH


def _make_pred(th):
    def pred(x):        # same code object every time, the closure cell differs
        return x.bal >= th
    return pred


def canon(x):
    if isinstance(x, core.Entity):
        return ['E', type(x).__name__, x._pkval_]
    if isinstance(x, (list, tuple, core.QueryResult)):
        return [canon(i) for i in x]
    if isinstance(x, dict):
        return sorted([k, canon(v)] for k, v in x.items())
    if x is None or isinstance(x, (bool, int, str)):
        return [type(x).__name__, x]
    return [type(x).__name__, repr(x)]


class Exec(object):
    def __init__(self, case, scratch, policy, idx):
        self.case = case
        self.policy = policy
        self.scratch = os.path.join(scratch, 'p%d' % idx)
        os.makedirs(self.scratch, exist_ok=True)
        self.rng = Rng(case.get('seed', 0), 'drops')
        self.obs = []
        self.drops = 0

    def build(self):
        self.db, self.ns, self.path = build_bank(self.scratch)
        self.Acct, self.Item, self.Tag = self.ns['Acct'], self.ns['Item'], self.ns['Tag']
        populate_bank(self.ns)
        self.db.disconnect()

    # ---- cache loss
    def drop(self, groups):
        self.drops += 1
        if 'process' in groups:
            procstate.clear_query_caches()
        if 'database' in groups:
            self.db._translator_cache.clear()
            self.db._constructed_sql_cache.clear()
            self.db._insert_cache.clear()
        for E in (self.Acct, self.Item, self.Tag):
            if 'entity' in groups:
                for n in ENTITY_CACHES:
                    getattr(E, n).clear()
                E._cached_max_id_sql_ = None
            if 'attr' in groups:
                for attr in E._attrs_:
                    if getattr(attr, 'lazy_sql_cache', None) is not None:
                        attr.lazy_sql_cache = None
                    if isinstance(attr, core.Set):
                        attr.cached_load_sql.clear()
                        attr.cached_add_m2m_sql = attr.cached_remove_m2m_sql = None
                        attr.cached_count_sql = attr.cached_empty_sql = None
        if 'session' in groups:
            cache = core.local.db2cache.get(self.db)
            if cache is not None and cache.is_alive and cache.query_results is not None:
                cache.query_results.clear()

    def maybe_drop(self):
        if self.policy == 'never':
            return
        if self.policy == 'always':
            self.drop(GROUPS)
            return
        if self.rng.chance(0.4):
            self.drop([g for g in GROUPS if self.rng.chance(0.5)])

    # ---- operations
    def op(self, name, a, b, c):
        Acct, Item, Tag, db = self.Acct, self.Item, self.Tag, self.db
        v = PARAM_VALUES[b % len(PARAM_VALUES)]
        if name == 'q_eq':
            attr = ('bal', 'name', 'note', 'rate')[a % 4]
            return select(x for x in Acct if getattr(x, attr) == v).order_by(Acct.id)[:]
        if name == 'q_cmp':
            return select(x.id for x in Acct if x.bal >= v).order_by(1)[:]
        if name == 'q_in':
            return select(x.id for x in Acct if x.bal in v).order_by(1)[:] if isinstance(v, tuple) else \
                select(x.id for x in Acct if x.name in (v, 'acct0')).order_by(1)[:]
        if name == 'q_slice':
            i, j = SLICES[b % len(SLICES)]
            if i is None:
                return select(x.name[:j] for x in Acct).order_by(1)[:]
            if j is None:
                return select(x.name[i:] for x in Acct).order_by(1)[:]
            return select(x.name[i:j] for x in Acct).order_by(1)[:]
        if name == 'q_index':
            i = (b % 7) - 3
            return select(x.name[i] for x in Acct).order_by(1)[:]
        if name == 'q_getattr':
            attr = ('bal', 'name', 'note', 'id')[b % 4]
            return select(getattr(x, attr) for x in Acct).order_by(1)[:]
        if name == 'q_shape':
            # a query whose translator has a parameter VALUE baked in (attribute named at run time, constant slice /
            # index bound), reshaped by the Query methods that derive a new translator from it and cache that one
            # under a key of their own (order_by, order_by(None), filter, where, distinct, without_distinct)
            k = a % 4
            if k == 0:
                attr = ('bal', 'name', 'note', 'id')[b % 4]
                q = select(getattr(x, attr) for x in Acct)
            elif k == 1:
                attr = ('bal', 'name', 'note', 'id')[b % 4]
                q = select(x.id for x in Acct if getattr(x, attr) != v)
            elif k == 2:
                i, j = SLICES[b % len(SLICES)]
                q = select(x.name[:j] for x in Acct) if i is None else select(x.name[i:] for x in Acct) if j is None \
                    else select(x.name[i:j] for x in Acct)
            else:
                i = (b % 7) - 3
                q = select(x.name[i] for x in Acct)
            n = c
            for _ in range(1 + a // 4 % 3):
                step, n = n % 7, n // 7
                if step == 0:
                    q = q.order_by(1)
                elif step == 1:
                    q = q.order_by(None)
                elif step == 2:
                    q = q.filter(lambda y: y != 'zz')
                elif step == 3:
                    q = q.where(lambda y: y != -1)
                elif step == 4:
                    q = q.distinct()
                elif step == 5:
                    q = q.without_distinct()
                else:
                    q = q.order_by(desc(1))
            fin = a // 12 % 4
            if fin == 0:
                return sorted(q[:], key=repr)
            if fin == 1:
                return q.count()
            if fin == 2:
                return q.exists()
            return sorted(q.without_distinct()[:], key=repr)
        if name == 'q_lambda':
            return Acct.select(lambda x: x.bal > v).order_by(Acct.id)[:]
        if name == 'q_str':
            return select('x for x in Acct if x.bal > v', {'Acct': Acct, 'v': v}).order_by(Acct.id)[:]
        if name == 'q_chain':
            q = select(x for x in Acct)
            if a % 2:
                q = q.filter(lambda x: x.bal >= v)
            if a % 3:
                q = q.where(lambda x: x.id != c % 4)
            if a % 5 == 0:
                q = q.filter(name='acct%d' % (c % 3))
            q = q.order_by(desc(Acct.id)) if c % 2 else q.order_by(Acct.id)
            return q[:]
        if name == 'q_aggr':
            k = a % 5
            q = select(x.bal for x in Acct if x.bal >= v)
            return [q.count(), q.sum(), q.min(), q.max(), q.avg()][k]
        if name == 'q_limit':
            q = select(x for x in Acct if x.bal >= v).order_by(Acct.id)
            k = a % 4
            if k == 0:
                return q.first()
            if k == 1:
                return q[:2]
            if k == 2:
                return q.exists()
            return q.page(1 + c % 2, 2)[:]
        if name == 'q_get':
            return Acct.get(name='acct%d' % (b % 4)) if a % 2 else Acct.get(lambda x: x.bal == v)
        if name == 'q_kw':
            return Acct.select(bal=v).order_by(Acct.id)[:]
        if name == 'q_items':
            x = Acct.get(id=1 + b % 3)
            return sorted(i.id for i in x.items) if x is not None else None
        if name == 'q_join':
            return select((i.id, i.acct.name) for i in Item if i.qty >= (b % 3) and i.acct.bal >= v).order_by(1)[:]
        if name == 'q_m2m':
            t = Tag.get(name='t%d' % (b % 3))
            return select(i.id for i in Item if t in i.tags).order_by(1)[:] if t is not None else None
        if name == 'q_prefetch':
            return [(x.id, sorted(i.id for i in x.items)) for x in select(x for x in Acct if x.bal >= v).prefetch(Acct.items).order_by(Acct.id)]
        if name == 'q_rawfrag':
            return select(x.id for x in Acct if raw_sql('x.bal >= $v')).order_by(1)[:]
        if name == 'q_hybrid':
            # hybrid method / property / function whose global (or closure cell) changes value and type between
            # executions of the same query code object
            global THRESH
            k = a % 5
            if k == 0:
                self.ns['LIMIT'] = v
                return select(x.id for x in Acct if x.rich()).order_by(1)[:]
            if k == 1:
                self.ns['MARK'] = v
                return select(x.id for x in Acct if x.marked).order_by(1)[:]
            if k == 2:
                THRESH = v
                return select(x.id for x in Acct if _big(x)).order_by(1)[:]
            if k == 3:
                pred = _make_pred(v)
                return select(x.id for x in Acct if pred(x)).order_by(1)[:]
            self.ns['LIMIT'] = v
            return select(x.id for x in Acct if x.near(c % 3 * 50)).order_by(1)[:]
        if name == 'raw':
            x = (0, 1, 2, 100)[b % 4]
            y = ('n1', 'acct%', None, '%')[c % 4]
            sql = RAW_SQLS[a % len(RAW_SQLS)]
            k = c % 3
            if k == 0:
                return [tuple(r) if isinstance(r, tuple) else r for r in db.select(sql)]
            if k == 1:
                return db.exists(sql)
            cur = db.execute(sql)
            return [tuple(r) for r in cur.fetchall()]
        if name == 'by_sql':
            x = 1 + b % 3
            if a % 2:
                return Acct.select_by_sql('select * from Acct where id >= $x order by id')
            return Acct.get_by_sql('select * from Acct where id = $x')
        if name == 'adapt':
            sql = ADAPT_SQLS[a % len(ADAPT_SQLS)]
            style = STYLES[b % len(STYLES)]
            adapted, code = core.adapt_sql(sql, style)
            return [adapted, canon(eval(code, {'x': 5, 'y': 'why'}))]
        # ---- modifications through the ORM and session control
        if name == 'm_set':
            x = Acct.get(id=1 + a % 3)
            if x is not None:
                attr = ('bal', 'note', 'name')[b % 3]
                setattr(x, attr, {'bal': 100 + c % 3 * 50, 'note': 'n%d' % (c % 4), 'name': 'acct%d' % (c % 5)}[attr])
            return 'set'
        if name == 'm_new':
            x = Acct.get(id=1 + a % 3)
            if x is not None:
                Item(acct=x, tag='new%d' % c, qty=c % 3)
            return 'new'
        if name == 'm_del':
            i = Item.select().order_by(desc(Item.id)).first()
            if i is not None:
                i.delete()
            return 'del'
        if name == 'm_tag':
            i = Item.get(id=1 + a % 6)
            t = Tag.get(name='t%d' % (b % 2))
            if i is not None and t is not None:
                if c % 2:
                    i.tags.add(t)
                else:
                    i.tags.remove(t)
            return 'tag'
        if name == 'm_bulkdel':
            # one DELETE statement built from a query: its cached SQL has to depend on everything the SELECT's does
            # (attribute named at run time, type of the value - NULL tests are different SQL)
            attr = ('qty', 'tag', 'id')[a % 3]
            w = (0, 1, 'i0_1', 'new1', None, 2, 'zz', 7)[b % 8]
            n = select(i for i in Item if getattr(i, attr) == w).delete(bulk=True)
            return ['bulkdel', n, sorted(i.id for i in select(i for i in Item))]
        if name == 'q_oneoff':
            # a query whose code object exists only for this call (built from text, as in a shell or a
            # template): nothing may be remembered under the identity of a code object that is gone
            k = (a * 7 + b) % len(ONEOFF_QUERIES)
            src = ONEOFF_QUERIES[k] % {'n': c % 5}
            return eval(src, {'select': select, 'Acct': Acct, 'Item': Item})
        if name == 'm_rawwrite':
            db.execute('update Acct set bal = bal + 1 where id = $(1 + a % 3)')
            return 'rawwrite'
        if name == 'flush':
            flush()
            return 'flush'
        if name == 'commit':
            commit()
            return 'commit'
        if name == 'rollback':
            rollback()
            return 'rollback'
        raise ValueError(name)

    def run(self):
        self.build()
        for sess in self.case['sessions']:
            try:
                with db_session:
                    for (name, a, b, c) in sess:
                        self.maybe_drop()
                        try:
                            r = self.op(name, a, b, c)
                            self.obs.append([name, canon(r)])
                        except Exception as e:
                            self.obs.append([name, 'EXC', type(e).__name__])
                            if isinstance(e, (core.TransactionError, core.DBException)) and not isinstance(e, core.TranslationError):
                                raise
            except Exception as e:
                self.obs.append(['session', 'EXC', type(e).__name__])
        try:
            self.db.disconnect()
        except Exception:
            pass
        return self.obs


def run_case(case, scratch):
    c = simdb.ctx
    c.phase = 'main'
    policies = case.get('policies') or ['always', 'never', 'seeded']
    runs = []
    for i, pol in enumerate(policies):
        procstate.clear_query_caches()
        ex = Exec(case, scratch, pol, i)
        runs.append((pol, ex.run(), ex.drops))
    ref_pol, ref, _ = runs[0]
    violations = []
    for pol, obs, drops in runs[1:]:
        if obs != ref:
            i = 0
            while i < min(len(obs), len(ref)) and obs[i] == ref[i]:
                i += 1
            g = obs[i] if i < len(obs) else None
            x = ref[i] if i < len(ref) else None
            opname = (g or x)[0]
            kind = 'exception' if (g and len(g) > 2 and g[1] == 'EXC') or (x and len(x) > 2 and x[1] == 'EXC') else 'result'
            flat = [op for sess in case['sessions'] for op in sess]
            violations.append({'prop': 'C05', 'key': 'C05|%s-depends-on-cache-state|op=%s|policy=%s' % (kind, opname, pol),
                               'detail': 'operation #%d %r: with every cache dropped before each operation it observes %r, '
                                         'with caches %s it observes %r' % (i, flat[i] if i < len(flat) else None, x,
                                                                            'kept warm' if pol == 'never' else 'dropped at seeded points', g)})
    digest = hsh([r[1] for r in runs])
    n_ops = sum(len(s) for s in case['sessions'])
    return {
        'violations': violations, 'fired': [], 'digest': digest,
        'sig': hsh([case['sessions'], policies]),
        'nontrivial': n_ops >= 4,
        'probes': {'cache_drops': sum(r[2] for r in runs), 'operations': n_ops,
                   'exceptions_observed': sum(1 for o in ref if len(o) > 2 and o[1] == 'EXC')},
        'sample': {'sessions': case['sessions'][:2], 'reference_observations': ref[:6]},
    }


def shrink(case):
    sess = case['sessions']
    for i in range(len(sess)):
        if len(sess) > 1:
            c = dict(case)
            c['sessions'] = sess[:i] + sess[i + 1:]
            yield c
    for i, s in enumerate(sess):
        n = len(s)
        size = max(1, n // 2)
        while True:
            for j in range(0, n, size):
                c = dict(case)
                s2 = s[:j] + s[j + size:]
                if len(s2) < n:
                    c['sessions'] = sess[:i] + [s2] + sess[i + 1:]
                    yield c
            if size == 1:
                break
            size = max(1, size // 2)
    if len(case.get('policies') or []) != 2:
        for pol in ('never', 'seeded'):
            c = dict(case)
            c['policies'] = ['always', pol]
            yield c
