"""CRASH engine (C17): SEQ write programs with a snapshot of the database files before every
DB-API call.  A crash cannot influence what came before it, so one execution covers every crash
index of the program: each snapshot, opened by a fresh raw connection (hot-journal recovery runs
as after a real restart), must equal the model's committed state as of the last COMMIT that had
returned at that point.  Error points are ordinary SEQ runs with case['faults'].
"""
import hashlib
import os
import shutil

from pony import orm
from pony.orm import db_session, select

from .. import simdb, procstate
from ..harness import hsh
from . import seq_ops


class CrashRun(seq_ops.Interp):

    def before_main(self):
        self.snap_dir = os.path.join(self.scratch, 'snaps')
        os.makedirs(self.snap_dir, exist_ok=True)
        self.snaps = []            # (g, epoch, content hash, path or None)
        self.seen_hashes = {}
        self.epoch = 0             # number of COMMITs of an open transaction that have returned
        self.versions = [self.committed.clone()]
        self.pending_db_commit = False
        self.max_snaps = int(self.case.get('max_snaps', 400))
        simdb.ctx.snapshot = self.take_snapshot
        simdb.ctx.after_call = self.after_db_call

    # ---- hooks
    def take_snapshot(self, g, ev):
        if ev['phase'] != 'main' or len(self.snaps) >= self.max_snaps:
            return
        h = hashlib.blake2b(digest_size=8)
        blobs = []
        for suffix in ('', '-journal', '-wal'):
            p = self.path + suffix
            try:
                with open(p, 'rb') as f:
                    b = f.read()
            except OSError:
                b = None
            blobs.append(b)
            h.update(b'\0' if b is None else b'\1' + b)
        key = (self.epoch, h.hexdigest())
        if key in self.seen_hashes:
            self.snaps.append((g, self.epoch, key[1], None, ev['kind'], ev.get('sql')))
            return
        d = os.path.join(self.snap_dir, '%05d' % g)
        os.makedirs(d)
        for suffix, b in zip(('', '-journal', '-wal'), blobs):
            if b is not None:
                with open(os.path.join(d, 'db' + suffix), 'wb') as f:
                    f.write(b)
        self.seen_hashes[key] = d
        if blobs[1]:
            self.probe('snapshot_with_hot_journal')
        self.snaps.append((g, self.epoch, key[1], d, ev['kind'], ev.get('sql')))

    def after_db_call(self, ev):
        seq_ops.Interp.after_db_call(self, ev)
        if ev['phase'] == 'main' and ev['kind'] == 'commit' and ev.get('in_tx') and 'exc' not in ev:
            self.epoch += 1
            self.versions.append(self.committed.clone())

    # ---- after the program: judge every crash point
    def after_main(self):
        simdb.ctx.snapshot = None
        # final state is a crash point too ("after the last call")
        self.take_snapshot(simdb.ctx.g, {'phase': 'main', 'kind': 'end', 'sql': None})
        last_ok_epoch = self.epoch
        checked = 0
        recovered = 0
        for (g, epoch, hx, d, kind, sql) in self.snaps:
            if d is None or epoch > last_ok_epoch or epoch >= len(self.versions):
                continue
            checked += 1
            exp_view = self.versions[epoch]
            try:
                got_e, got_m, fk = self.dump(os.path.join(d, 'db'))
            except Exception as e:
                self.viol('C17', 'snapshot-unreadable', 'call=%s' % kind,
                          'database copied before call #%d (%s %s) cannot be opened: %s: %s' % (g, kind, (sql or '')[:60],
                                                                                               type(e).__name__, e))
                continue
            exp_e, exp_m = self.expected_tables(exp_view)
            diffs = []
            for en in exp_e:
                if got_e.get(en, {}) != exp_e[en]:
                    gk, xk = got_e.get(en, {}), exp_e[en]
                    for pk in sorted(set(gk) | set(xk), key=repr):
                        if gk.get(pk) != xk.get(pk):
                            diffs.append('%s%r expected %r got %r' % (en, pk, xk.get(pk), gk.get(pk)))
            for k in exp_m:
                if got_m.get(k, set()) != exp_m[k]:
                    diffs.append('links %s.%s expected %r got %r' % (k[0], k[1], sorted(exp_m[k]), sorted(got_m.get(k, set()))))
            if diffs:
                self.sess_index, self.op_index, self.cur_op_desc = '-', '-', 'crash before call #%d' % g
                self.viol('C17', 'crash-state-not-a-committed-state',
                          'call=%s%s' % (kind, ':' + (sql or '').split(' ')[0] if sql else ''),
                          'a crash right before DB-API call #%d (%s %s), after %d commit(s) had returned, leaves a '
                          'database that is neither state: %s' % (g, kind, (sql or '')[:70], epoch, '; '.join(diffs[:4])))
            if fk:
                self.viol('C17', 'crash-state-dangling-reference', 'call=%s' % kind, 'foreign_key_check: %r' % (fk[:3],))
            if os.path.exists(os.path.join(d, 'db-journal')):
                recovered += 1
        self.probe('crash_points_total', len(self.snaps))
        self.probe('crash_points_distinct_checked', checked)
        self.probe('hot_journal_recoveries', recovered)
        # recovery liveness: a brand-new Database bound to a surviving file completes a read and a write session
        for (g, epoch, hx, d, kind, sql) in [s for s in self.snaps if s[3] is not None][-2:]:
            self.recovery_probe(os.path.join(d, 'db'), g)
        shutil.rmtree(self.snap_dir, ignore_errors=True)

    def recovery_probe(self, path, g):
        db = orm.Database()
        ns = {'db': db, 'Required': orm.Required, 'Optional': orm.Optional, 'Set': orm.Set,
              'PrimaryKey': orm.PrimaryKey, 'composite_key': orm.composite_key, 'int': int, 'str': str, 'float': float, 'Json': orm.Json}
        exec(self.schema.source(self.knobs), ns)
        g0 = simdb.ctx.g
        try:
            db.bind('sqlite', path, create_db=False, timeout=0)
            db.generate_mapping(create_tables=False)
            procstate.register_db(db)
            with db_session:
                n = select(x for x in ns['Log']).count()
            with db_session:
                ns['Log'](msg='recovery')
            with db_session:
                n2 = select(x for x in ns['Log']).count()
            if n2 != n + 1:
                self.viol('C17', 'recovery-write-lost', 'probe', 'after restart on the surviving file a committed insert is not visible')
            self.probe('recovery_probes')
        except Exception as e:
            self.sess_index, self.op_index, self.cur_op_desc = '-', '-', 'recovery after crash before call #%d' % g
            self.viol('C17', 'recovery-failed', 'exc=%s' % type(e).__name__,
                      'a new Database bound to the surviving file could not complete a read and a write session: %s: %s'
                      % (type(e).__name__, str(e)[:200]))
        finally:
            try:
                db.disconnect()
            except Exception:
                pass
        if simdb.ctx.g - g0 > 200:
            self.viol('C17', 'recovery-budget-exceeded', 'probe', 'recovery needed %d DB calls' % (simdb.ctx.g - g0))


def run_case(case, scratch):
    return seq_ops.run_case(case, scratch, cls=CrashRun)


def shrink(case):
    return seq_ops.shrink(case)
