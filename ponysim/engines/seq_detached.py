"""Operations on objects left over from a finished session (C32), run by the SEQ engine right
after each session when the case asks for it (case['detached'] = list of [op, a, b, c])."""
from pony.orm import core
from pony.orm import db_session

from .. import simdb
from ..seqschema import pool

DETACHED_OPS = ('d_read', 'd_set', 'd_setmany', 'd_rel', 'd_add', 'd_remove', 'd_clear', 'd_assign', 'd_del', 'd_flush',
                'd_load', 'd_coll', 'd_mix', 'd_todict', 'd_json', 'd_coll_later', 'd_coll')

SESSION_OVER = (core.DatabaseSessionIsOver,)
DELETED = (core.OperationWithDeletedObjectError,)


class DetachedMixin(object):

    def detached_phase(self, si, handles, view, how, strict):
        """how: 'committed' | 'rolled-back' | 'failed'"""
        ops = self.case.get('detached') or []
        if not ops or not handles:
            return
        mids = sorted(handles)
        self.sess_index = '%s-detached' % si
        dump0 = self.dump()
        for oi, (name, a, b, c) in enumerate(ops):
            self.op_index = oi
            mid = mids[a % len(mids)]
            h = handles[mid]
            mo = view.objs.get(mid)
            if mo is None:
                continue
            e = self.schema.by_name[mo.ent]
            status = h._status_
            gone = status in ('deleted', 'cancelled', 'marked_to_delete')
            g0 = simdb.ctx.g
            self.cur_op_desc = '%s %s#%d (status %s, session %s%s)' % (name, mo.ent, mid, status, how, ', strict' if strict else '')
            self.probe('detached_op')
            self.probe('detached_on_' + str(status))
            try:
                self._detached_op(name, h, mo, e, view, handles, b, c, how, strict, gone)
            finally:
                if simdb.ctx.g != g0 and name not in ('d_mix', 'd_coll_later'):     # those open a later session of their own
                    self.viol('C32', 'database-touched-from-finished-session', 'op=%s' % name,
                              '%s issued %d DB-API call(s)' % (self.cur_op_desc, simdb.ctx.g - g0))
                if core.local.db2cache:
                    self.viol('C32', 'session-created-outside-db_session', 'op=%s' % name, self.cur_op_desc)
                    try:
                        core.rollback()
                    except Exception:
                        pass
        dump1 = self.dump()
        if dump1 != dump0:
            self.cur_op_desc = 'after the detached operations'
            self.viol('C32', 'detached-operation-wrote', 'session=%s' % how, 'the database changed while only finished-session '
                      'objects were used')

    def _expect_raise(self, name, fn, gone, extra=()):
        ok_classes = SESSION_OVER + (DELETED if gone else ()) + tuple(extra)
        try:
            fn()
        except ok_classes:
            self.probe('detached_refused')
            return True
        except (core.OrmError, ValueError, TypeError) as e:
            if gone:
                return True
            self.viol('C32', 'wrong-error-for-finished-session', 'op=%s|exc=%s' % (name, type(e).__name__),
                      '%s raised %s: %s instead of a session-is-over error' % (self.cur_op_desc, type(e).__name__, str(e)[:120]))
            return True
        except Exception as e:
            self.viol('C32', 'internal-error-on-finished-session', 'op=%s|exc=%s' % (name, type(e).__name__),
                      '%s raised %s: %s' % (self.cur_op_desc, type(e).__name__, str(e)[:160]))
            return True
        self.viol('C32', 'modification-accepted-after-session', 'op=%s' % name,
                  '%s was accepted although the session is over' % self.cur_op_desc)
        return False

    def _detached_op(self, name, h, mo, e, view, handles, b, c, how, strict, gone):
        P = type(h)
        if P.__name__ != e.name and P.__name__ in self.schema.by_name:
            # single-table inheritance: a reference whose row was never loaded kept the class of the attribute that
            # refers to it; after the session nothing can refine it any more, the program holds a Person
            e = self.schema.by_name[P.__name__]
        scalars = [x for x in e.scalars() if not x.is_pk]
        sets = e.sets()
        tos = e.to_ones()
        if name == 'd_read' or name == 'd_todict':
            if not scalars:
                return
            at = scalars[b % len(scalars)]
            pa = getattr(P, at.name)
            loaded = h._vals_ is not None and pa in h._vals_
            try:
                got = getattr(h, at.name) if name == 'd_read' else None
                if name == 'd_todict':
                    h.to_dict()
            except Exception as ex:
                if strict or gone or not loaded or name == 'd_todict' or how != 'committed':
                    return
                self.viol('C32', 'loaded-value-not-readable', '%s.%s|exc=%s' % (mo.ent, at.name, type(ex).__name__),
                          '%s: %s was loaded but reading it raised %s: %s' % (self.cur_op_desc, at.name, type(ex).__name__, str(ex)[:120]))
                return
            if name == 'd_todict':
                return
            if strict and not gone:
                self.viol('C32', 'strict-session-object-readable', '%s.%s' % (mo.ent, at.name),
                          '%s: value %r readable after a strict session' % (self.cur_op_desc, got))
            elif not loaded and not gone:
                self.viol('C32', 'unloaded-value-readable', '%s.%s' % (mo.ent, at.name),
                          '%s: %s was not loaded, yet reading it returned %r' % (self.cur_op_desc, at.name, got))
            elif how == 'committed' and not gone and not mo.deleted and got != mo.vals.get(at.name):
                self.viol('C32', 'snapshot-differs-from-committed-value', '%s.%s' % (mo.ent, at.name),
                          '%s: read %r, the session committed %r' % (self.cur_op_desc, got, mo.vals.get(at.name)))
        elif name == 'd_json':
            # a change made in place inside a tracked Json value of a finished-session object
            pa = getattr(P, 'meta', None)
            if pa is None or h._vals_ is None or not isinstance(h._vals_.get(pa), dict):
                return
            cur = h._vals_[pa]
            before = repr(dict(cur))
            k = b % 3
            if k == 0:
                fn = lambda: cur.__setitem__('k', 90 + c % 5)
            elif k == 1 and isinstance(cur.get('l'), list):
                fn = lambda: cur['l'].append(90 + c % 5)
            else:
                fn = lambda: cur.update({'z': 1})
            self._expect_raise(name, fn, gone)
            if repr(dict(cur)) != before and not gone:
                self.viol('C32', 'finished-session-object-changed', '%s.meta' % mo.ent,
                          '%s: the Json value of a finished-session object changed from %s to %r' % (self.cur_op_desc, before, dict(cur)))
        elif name == 'd_set':
            if not scalars:
                return
            at = scalars[b % len(scalars)]
            p = pool(e.name, at.name)
            val = p[c % len(p)]
            self._expect_raise(name, lambda: setattr(h, at.name, val), gone)
        elif name == 'd_setmany':
            if len(scalars) < 2:
                return
            kw = {}
            for at in (scalars[b % len(scalars)], scalars[(b + 1) % len(scalars)]):
                p = pool(e.name, at.name)
                kw[at.name] = p[c % len(p)]
            self._expect_raise(name, lambda: h.set(**kw), gone)
        elif name == 'd_rel':
            if not tos:
                return
            ra = tos[b % len(tos)]
            cands = [handles[m] for m in sorted(handles) if view.objs[m].ent == ra.rel]
            tgt = cands[c % len(cands)] if cands and c % 3 else None
            if tgt is None and ra.required:
                return
            self._expect_raise(name, lambda: setattr(h, ra.name, tgt), gone)
        elif name in ('d_add', 'd_remove', 'd_clear', 'd_assign'):
            if not sets:
                return
            sa = sets[b % len(sets)]
            cands = [handles[m] for m in sorted(handles) if view.objs[m].ent == sa.rel and handles[m] is not h]
            if name in ('d_add', 'd_remove') and not cands:
                return
            it = cands[c % len(cands)] if cands else None

            def fn():
                coll = getattr(h, sa.name)
                if name == 'd_add':
                    coll.add(it)
                elif name == 'd_remove':
                    coll.remove(it)
                elif name == 'd_clear':
                    coll.clear()
                else:
                    setattr(h, sa.name, [it] if it is not None else [])
            self._expect_raise(name, fn, gone)
        elif name == 'd_del':
            self._expect_raise(name, lambda: h.delete(), gone)
        elif name == 'd_flush':
            try:
                h.flush()
            except Exception:
                pass        # raising is fine; a silent no-op is fine; DB calls are checked by the caller
        elif name == 'd_load':
            fully = h._vals_ is not None and all(getattr(P, x.name) in h._vals_ for x in e.scalars())
            try:
                h.load()
            except Exception:
                return
            if not fully and not gone and not strict:
                # load() returned: then it must not have needed the database (checked by the caller through the
                # DB-API call counter); nothing else to demand
                pass
        elif name in ('d_coll', 'd_coll_later'):
            if not sets:
                return
            sa = sets[b % len(sets)]
            pa = getattr(P, sa.name)
            sd = h._vals_.get(pa) if h._vals_ is not None else None
            full = sd is not None and sd.is_fully_loaded
            form = ('len', 'iter', 'count', 'is_empty', 'bool')[c % 5]
            # what the snapshot can answer without the database
            known = full
            if form == 'count':
                known = full or (sd is not None and sd.count is not None)
            elif form == 'is_empty':
                known = full or (sd is not None and (len(sd) > 0 or sd.count is not None))

            def ask():
                coll = getattr(h, sa.name)
                if form == 'len':
                    return len(coll)
                if form == 'iter':
                    return sorted((i._pkval_ for i in coll), key=repr)
                if form == 'count':
                    return coll.count()
                if form == 'is_empty':
                    return coll.is_empty()
                return bool(coll)

            self.cur_op_desc += ' .%s %s' % (sa.name, form)
            g_before = simdb.ctx.g
            try:
                if name == 'd_coll_later':
                    # the object is asked while the thread is inside a LATER db_session: nothing of that session may
                    # be used to answer for the finished one
                    try:
                        with db_session:
                            got = ask()
                    finally:
                        n_calls = simdb.ctx.g - g_before
                        if core.local.db2cache:
                            try:
                                core.rollback()
                            except Exception:
                                pass
                else:
                    n_calls = 0
                    got = ask()
            except Exception as ex:
                if name == 'd_coll_later' and n_calls:
                    self.viol('C32', 'database-touched-from-finished-session', 'op=%s|%s' % (name, form),
                              '%s issued %d DB-API call(s) through a later session' % (self.cur_op_desc, n_calls))
                # readability is demanded for what a session that ended normally had loaded; objects of a
                # rolled back / failed session (never saved 'created' objects among them) are in limbo
                if known and not strict and not gone and how == 'committed':
                    self.viol('C32', 'loaded-collection-not-readable', '%s.%s|exc=%s' % (mo.ent, sa.name, type(ex).__name__),
                              '%s: collection %s was fully loaded but reading it raised %s' % (self.cur_op_desc, sa.name, type(ex).__name__))
                elif not known and not gone and not isinstance(ex, SESSION_OVER):
                    self.viol('C32', 'wrong-error-for-unloaded-collection', '%s|exc=%s' % (form, type(ex).__name__),
                              '%s: the answer needs the database; expected DatabaseSessionIsOver, got %s: %s'
                              % (self.cur_op_desc, type(ex).__name__, str(ex)[:120]))
                return
            if name == 'd_coll_later' and n_calls:
                self.viol('C32', 'database-touched-from-finished-session', 'op=%s|%s' % (name, form),
                          '%s issued %d DB-API call(s) through a later session and returned %r'
                          % (self.cur_op_desc, n_calls, got))
            if not known and not gone:
                self.viol('C32', 'unloaded-collection-readable', '%s.%s' % (mo.ent, sa.name),
                          '%s: collection %s was not loaded far enough to know, yet the call returned %r' % (self.cur_op_desc, sa.name, got))
        elif name == 'd_mix':
            # use the finished-session object as a value inside a later session: must be refused
            cands = [(m, x) for m, x in sorted(view.objs.items()) if not x.deleted and x.stored and x.pk is not None]
            if not cands:
                return
            # the inner session does its own DB calls; account for them separately
            outcome = {}
            g_before = simdb.ctx.g
            try:
                with db_session:
                    for m, x in cands:
                        e2 = self.schema.by_name[x.ent]
                        rel = [ra for ra in e2.to_ones() if ra.rel == mo.ent] + [sa for sa in e2.sets() if sa.rel == mo.ent]
                        if not rel:
                            continue
                        E2 = self.E[x.ent]
                        live = E2.get(**dict((pa.name, v) for pa, v in zip([q for q in e2.pk_attrs], x.pk)))
                        if live is None:
                            continue
                        ra = rel[c % len(rel)]
                        try:
                            if ra.is_set:
                                getattr(live, ra.name).add(h)
                            else:
                                setattr(live, ra.name, h)
                            outcome['accepted'] = '%s.%s' % (x.ent, ra.name)
                        except core.TransactionError:
                            outcome['refused'] = True
                        except (core.OrmError, TypeError, ValueError) as ex:
                            outcome['refused'] = True if gone else ('wrong', type(ex).__name__, str(ex)[:100])
                        break
                    raise _Abort()
            except _Abort:
                pass
            except Exception as ex:
                outcome['session_error'] = '%s: %s' % (type(ex).__name__, str(ex)[:100])
            if 'accepted' in outcome and not gone:
                self.viol('C32', 'finished-session-object-accepted-in-later-session', outcome['accepted'],
                          '%s: assigning it to %s inside a later session was accepted' % (self.cur_op_desc, outcome['accepted']))
            elif isinstance(outcome.get('refused'), tuple):
                self.viol('C32', 'wrong-error-for-mixed-sessions', 'exc=%s' % outcome['refused'][1],
                          '%s: %s' % (self.cur_op_desc, outcome['refused']))


class _Abort(Exception):
    pass
