"""CONC engine: 2-3 real threads under the seeded scheduler on one file database.

case = {'engine': 'conc', 'mode': <mode>, 'seed': int, 'threads': {'T0': prog, ...},
        'faults': [[thread, k, kind], ...], 'p_switch': float | 'schedule': [[d, thread], ...],
        'knobs': {...}}

Modes (one class each): c22 (shared caches, line pre-emption), c19b (session
shapes under schedules), c20 (optimistic lost updates), c21 (repeatable reads),
c35 (for_update / serializable against writers and an external raw writer),
c14 (concurrent key collisions).
"""
import os
import sqlite3
import threading
import traceback

from pony import orm
from pony.orm import core
from pony.orm import db_session, select, commit, rollback, flush

from .. import simdb, simsched, procstate, preempt_whitelist
from ..harness import hsh
from ..prng import Rng
from . import shapes as shapes_mod

_line_enabled = {}


def _enable_lines(level):
    """Returns the set of code objects whose line events are pre-emption points at this level."""
    names = list(preempt_whitelist.QUICK)
    if level == 'thorough':
        names += preempt_whitelist.THOROUGH_EXTRA
    todo = [n for n in names if n not in _line_enabled]
    if todo:
        codes = preempt_whitelist.resolve(todo)
        simsched.enable_line_preemption(codes)
        for n, co in zip(todo, codes):
            _line_enabled[n] = co
    return set(_line_enabled[n] for n in names)


def exc_name(e):
    return type(e).__name__ if e is not None else None


def exc_str(e):
    if e is None:
        return None
    return '%s: %s' % (type(e).__name__, str(e)[:160])


class Mode(object):
    name = None
    prop = None
    lines = False          # line-level pre-emption wanted
    step_cap = 20000

    def __init__(self, case, scratch):
        self.case = case
        self.scratch = scratch
        self.knobs = case.get('knobs') or {}
        self.violations = []
        self.obs = {}          # thread -> list of observations
        self.probes = {}
        self.sched = None

    def viol(self, sub, shape, detail, prop=None):
        prop = prop or self.prop
        key = '%s|%s|%s' % (prop, sub, shape)
        if not any(v['key'] == key for v in self.violations):
            self.violations.append({'prop': prop, 'key': key, 'detail': detail})

    def probe(self, name, n=1):
        self.probes[name] = self.probes.get(name, 0) + n

    def op_yield(self):
        """explicit pre-emption point between API calls of a workload"""
        s = self.sched
        if s is not None and s.active:
            s.yield_point('op')

    # to be provided by subclasses
    def setup(self):
        raise NotImplementedError

    def thread_body(self, name, prog):
        raise NotImplementedError

    def check(self, outcome):
        pass

    def thread_end(self, name):
        """runs inside each simulated thread when its body is done"""
        pass


# ---------------------------------------------------------------------------
# shared schema for the data modes

BANK_SRC = '''
class Acct(db.Entity):
    name = Required(str, unique=True)
    bal = Required(int, default=0)
    note = Optional(str)
    rate = Required(float, default=0.0)
    hits = Required(int, default=0, optimistic=False)
    tick = Required(int, default=0, volatile=True)
    cap = Optional(int)          # nullable, NULL at the start
    items = Set('Item')
    card = Optional('Card')      # one-to-one, the column lives in Card
    # hybrid method / property inlined into queries; they read globals of this namespace (C05)
    def rich(self):
        return self.bal >= LIMIT
    @property
    def marked(self):
        return self.note == MARK
    def near(self, other):
        return self.bal >= other and self.rate != LIMIT

class Item(db.Entity):
    acct = Required(Acct)
    tag = Optional(str)
    qty = Required(int, default=0)
    tags = Set('Tag')

class Tag(db.Entity):
    name = Required(str, unique=True)
    items = Set(Item)

class Card(db.Entity):
    code = Required(str, unique=True)
    acct = Optional(Acct, column='acct')
'''


def build_bank(scratch, cache_size=None):
    db = orm.Database()
    ns = {'db': db, 'Required': orm.Required, 'Optional': orm.Optional, 'Set': orm.Set, 'PrimaryKey': orm.PrimaryKey,
          'LIMIT': 100, 'MARK': 'n1'}
    exec(BANK_SRC, ns)
    path = os.path.join(scratch, 'bank.sqlite')
    if cache_size:
        @db.on_connect(provider='sqlite')
        def _pragma(db_, con):
            con.execute('PRAGMA cache_size = %d' % int(cache_size))
    db.bind('sqlite', path, create_db=True, timeout=0)
    db.generate_mapping(create_tables=True)
    procstate.register_db(db)
    return db, ns, path


def populate_bank(ns, n_acct=3, n_item=2):
    with db_session:
        tags = [ns['Tag'](name='t%d' % i) for i in range(2)]
        for i in range(n_acct):
            a = ns['Acct'](name='acct%d' % i, bal=100, note='n%d' % i, rate=1.5, hits=0, tick=0)
            for j in range(n_item):
                it = ns['Item'](acct=a, tag='i%d_%d' % (i, j), qty=j)
                if not (i == n_acct - 1 and j == n_item - 1):
                    it.tags.add(tags[j % 2])        # (the last item starts without tags: an empty collection)
            ns['Card'](code='c%d' % i, acct=a)
        ns['Card'](code='c%d' % n_acct)           # a card nobody holds


def dump_bank(path):
    con = simdb.raw_connect(path)
    try:
        out = {}
        out['Acct'] = con.execute('select id, name, bal, note, rate, hits, tick, cap from Acct order by id').fetchall()
        out['Item'] = con.execute('select id, acct, tag, qty from Item order by id').fetchall()
        out['Tag'] = con.execute('select id, name from Tag order by id').fetchall()
        out['Item_Tag'] = con.execute('select * from Item_Tag order by 1, 2').fetchall()
        return out
    finally:
        con.close()


# ---------------------------------------------------------------------------
# c22: shared process state

def _q_getattr(E, name, v):
    return select(a for a in E.Acct if getattr(a, name) == v)[:]


def _q_getattr_proj(E, name):
    return select(getattr(a, name) for a in E.Acct).order_by(1)[:]


def _q_slice(E, i, j):
    return select(a.name[i:j] for a in E.Acct).order_by(1)[:]


def _q_index(E, i):
    return select(a.name[i] for a in E.Acct).order_by(1)[:]


def _q_param(E, v):
    return select(a for a in E.Acct if a.bal >= v).order_by(E.Acct.id)[:]


def _q_param_typed(E, v):
    return select(a.id for a in E.Acct if a.note == v or a.name == v).order_by(1)[:]


def _q_lambda(E, v):
    return E.Acct.select(lambda a: a.bal > v).order_by(E.Acct.id)[:]


def _q_str(E, v):
    return select('a for a in Acct if a.bal > v', {'Acct': E.Acct, 'v': v}).order_by(E.Acct.id)[:]


def _q_count(E, v):
    return select(i for i in E.Item if i.qty >= v).count()


def _q_raw(E, v):
    return E.db.select('select id, bal from Acct where bal >= $v order by id')


def _q_raw2(E, v):
    x = v
    return E.db.select('select name from Acct where id = $x or id = $(x+1) order by id')


def _q_kw(E, v):
    return E.Acct.select(bal=v).order_by(E.Acct.id)[:]


def _q_filter_chain(E, v, w):
    q = select(a for a in E.Acct)
    q = q.filter(lambda a: a.bal >= v)
    q = q.filter(lambda a: a.id != w)
    return q.order_by(E.Acct.id)[:]


def _q_items(E, k):
    a = E.Acct[k]
    return sorted(i.id for i in a.items)


def _q_lazy_nav(E, k):
    it = E.Item[k]
    return it.acct.name, sorted(t.name for t in it.tags)


def _q_insert(E, v):
    # raw insert through database.insert (shares _insert_cache)
    return E.db.insert('Tag', name='ins_%s' % v)


def _canon(x):
    if isinstance(x, core.Entity):
        return ('E', type(x).__name__, x._pkval_)
    if isinstance(x, (list, tuple, core.QueryResult)):
        return [_canon(i) for i in x]
    return x


class C22(Mode):
    name = 'c22'
    prop = 'C22'
    lines = True

    MENU = ('getattr', 'getattr_proj', 'slice', 'index', 'param', 'param_typed', 'lambda', 'str', 'count',
            'raw', 'raw2', 'kw', 'filter_chain', 'items', 'lazy_nav', 'stats', 'cross')

    def setup(self):
        self.db, self.ns, self.path = build_bank(self.scratch)
        E = self.E = type('E', (), {})()
        E.db = self.db
        E.Acct, E.Item, E.Tag = self.ns['Acct'], self.ns['Item'], self.ns['Tag']
        populate_bank(self.ns)
        self.db.disconnect()
        self.shared = {}        # objects handed from one thread to another (cross-thread use)
        if self.knobs.get('prewarm'):
            with db_session:
                for op in self.knobs['prewarm']:
                    try:
                        self.do_query(op)
                    except Exception:
                        pass
            self.db.disconnect()

    def do_query(self, op):
        E = self.E
        kind = op[0]
        a = op[1:]
        if kind == 'getattr':
            name = ('name', 'bal', 'note')[a[0] % 3]
            v = {'name': 'acct%d' % (a[1] % 3), 'bal': 100, 'note': 'n%d' % (a[1] % 3)}[name]
            return _canon(_q_getattr(E, name, v))
        if kind == 'getattr_proj':
            return _canon(_q_getattr_proj(E, ('name', 'bal', 'note', 'id')[a[0] % 4]))
        if kind == 'slice':
            return _canon(_q_slice(E, a[0] % 3, 2 + a[1] % 4))
        if kind == 'index':
            return _canon(_q_index(E, a[0] % 5))
        if kind == 'param':
            return _canon(_q_param(E, (50, 100, 150)[a[0] % 3]))
        if kind == 'param_typed':
            return _canon(_q_param_typed(E, ('n1', 'acct2', None, 'zz')[a[0] % 4]))
        if kind == 'lambda':
            return _canon(_q_lambda(E, (0, 99, 100)[a[0] % 3]))
        if kind == 'str':
            return _canon(_q_str(E, (0, 99, 100)[a[0] % 3]))
        if kind == 'count':
            return _canon(_q_count(E, a[0] % 3))
        if kind == 'raw':
            return _canon([tuple(r) for r in _q_raw(E, (50, 100, 150)[a[0] % 3])])
        if kind == 'raw2':
            return _canon(_q_raw2(E, 1 + a[0] % 3))
        if kind == 'kw':
            return _canon(_q_kw(E, (100, 7)[a[0] % 2]))
        if kind == 'filter_chain':
            return _canon(_q_filter_chain(E, (50, 100, 150)[a[0] % 3], 1 + a[1] % 3))
        if kind == 'items':
            return _canon(_q_items(E, 1 + a[0] % 3))
        if kind == 'lazy_nav':
            return _canon(_q_lazy_nav(E, 1 + a[0] % 6))
        if kind == 'stats':
            self.db.merge_local_stats()
            return 'merged'
        raise ValueError(kind)

    def cross_use(self, name, op):
        """use an object that belongs to another thread's session: must raise"""
        other = self.shared.get(op[1] % 2)
        if other is None:
            return 'no-object-yet'
        obj, owner = other
        if owner == name:
            return 'own-object'
        E = self.E
        how = op[2] % 6
        if how >= 4:
            # the foreign object's collection is loaded on its behalf (len / iteration).  Only while it is not loaded:
            # reading what the owner has loaded already is the known finding of how=1 (attribute access does not test
            # who owns the session)
            sd = obj._vals_.get(E.Acct.items) if obj._vals_ is not None else None
            if sd is not None and sd.is_fully_loaded:
                return 'collection-already-loaded'
        self.probe('cross_thread_use')
        k0 = simdb.ctx.thread_k.get(name, 0)
        try:
            if how == 0:
                mine = E.Item.select().first()
                mine.acct = obj
            elif how == 1:
                # scalar write; restored at once so that an (incorrectly) accepted write leaves the
                # static data unchanged and cannot cascade into the differential oracle
                old = obj.bal
                obj.bal = 5
                obj.bal = old
            elif how == 2:
                E.Item(acct=obj, tag='x')
            elif how == 3:
                obj.items.add(E.Item.select().first())
            elif how == 4:
                len(obj.items)
            else:
                list(obj.items)
        except (core.TransactionError, core.DatabaseSessionIsOver) as e:
            return 'raised:TransactionError'
        except Exception as e:
            self.viol('cross-thread-use-wrong-error', 'how=%d' % how,
                      'using an object of another thread raised %s' % exc_str(e))
            return 'raised:' + type(e).__name__
        if how >= 4 and simdb.ctx.thread_k.get(name, 0) == k0:
            # no DB-API call was made on this thread's behalf: the owner finished loading the collection between
            # the test above and the call (the thorough tier pre-empts inside __len__ / Set.load) - the answer
            # came from the owner's loaded data, which is the known finding of how=1, not a load through this thread
            return 'collection-already-loaded'
        self.viol('cross-thread-use-accepted', 'how=%d' % how,
                  'thread %s used an object of thread %s session without an error' % (name, owner))
        return 'accepted'

    def thread_body(self, name, prog):
        out = self.obs.setdefault(name, [])
        for sess in prog:
            try:
                with db_session:
                    if sess.get('share') is not None:
                        obj = self.E.Acct[1 + sess['share'] % 3]
                        self.shared[sess['share'] % 2] = (obj, name)
                    for op in sess['ops']:
                        if op[0] == 'cross':
                            out.append(['cross', self.cross_use(name, op)])
                            continue
                        try:
                            r = self.do_query(op)
                            out.append([op[0], r])
                        except Exception as e:
                            out.append([op[0], 'EXC', exc_str(e), traceback.format_exc()[-600:]])
            except Exception as e:
                out.append(['session', 'EXC', exc_str(e)])
        self.db.merge_local_stats()
        self.db.disconnect()

    @staticmethod
    def _norm(lst):
        return [[o[0], o[1]] if o[1] != 'EXC' else [o[0], 'EXC', o[2]] for o in lst if o[0] != 'cross']

    def check(self, outcome):
        if outcome != 'all-finished':
            self.viol('deadlock', 'outcome=%s' % outcome, 'threads did not finish: %r' % (self.sched.deadlock_info,))
            return
        # differential oracle: each thread's program alone, cold caches, same static data
        conc_obs = self.obs
        self.obs = {}
        self.shared = {}
        for name in sorted(self.case['threads']):
            procstate.clear_query_caches()
            self.db._translator_cache.clear()
            self.db._constructed_sql_cache.clear()
            self.thread_body(name, self.case['threads'][name])
        solo = self.obs
        self.obs = conc_obs
        self.solo_obs = solo
        for name, exp in sorted(solo.items()):
            got = self.obs.get(name, [])
            got_c = self._norm(got)
            exp_c = self._norm(exp)
            if got_c != exp_c:
                # first difference
                i = 0
                while i < min(len(got_c), len(exp_c)) and got_c[i] == exp_c[i]:
                    i += 1
                g = got_c[i] if i < len(got_c) else None
                x = exp_c[i] if i < len(exp_c) else None
                tb = ''
                for o in got:
                    if len(o) > 3 and o[1] == 'EXC':
                        tb = o[3]
                        break
                if g is not None and len(g) > 2:
                    sub = 'spurious-error'
                    shape = '%s:%s' % (g[0], g[2].split(':')[0])
                else:
                    sub = 'different-result'
                    shape = '%s' % (g[0] if g else None)
                self.viol(sub, shape, 'thread %s step %d: alone it observes %r, concurrently %r %s'
                          % (name, i, x, g, tb))


# ---------------------------------------------------------------------------
# c19b: session shapes under thread schedules

class C19B(Mode):
    name = 'c19b'
    prop = 'C19'

    def setup(self):
        E = self.E = shapes_mod.Env()
        E.scratch = self.scratch
        E.db, E.A, E.B, E.C, E.path = shapes_mod.build(self.scratch, 'file')
        shapes_mod.populate(E)
        E.db.disconnect()
        self.ends = {}
        self.fails = {}

    def thread_body(self, name, prog):
        E = self.E
        out = self.obs.setdefault(name, [])
        for shape in prog:
            try:
                shapes_mod.SHAPES[shape](E)
                out.append([shape, 'ok'])
            except simsched.SimAbort:
                raise
            except BaseException as e:
                out.append([shape, exc_str(e)])
                self.fails.setdefault(name, []).append((shape, e))
        # end-of-thread state, inside the owning thread (thread-local pool)
        st = {}
        st['db2cache'] = len(core.local.db2cache)
        st['db_session'] = core.local.db_session is not None or bool(core.local.db_context_counter)
        pc = E.db.provider.pool.con
        st['pool_con'] = pc.cid if pc is not None else None
        if pc is not None and not pc.closed:
            try:
                st['in_tx'] = bool(pc._real.in_transaction)
                pc._real.execute('select 1').fetchone()
                st['usable'] = True
            except Exception as e:
                st['usable'] = False
                st['err'] = exc_str(e)
        self.ends[name] = st
        try:
            E.db.disconnect()
        except BaseException:
            pass

    def check(self, outcome):
        E = self.E
        c = simdb.ctx
        fault_desc = '+'.join('%s:%s' % (f[3], f[4]) for f in c.fired) or 'none'
        progs = '/'.join(','.join(self.case['threads'][t]) for t in sorted(self.case['threads']))
        shape = 'faults=%s|progs=%s' % (fault_desc, progs)
        if outcome == 'deadlock':
            self.viol('deadlock', shape, 'no thread can run: %r; lock owners: %s/%s'
                      % (self.sched.deadlock_info, E.db.provider.transaction_lock.owner_name(),
                         E.db.provider.pre_transaction_lock.owner_name()))
            return
        for name, st in sorted(self.ends.items()):
            if st['db2cache']:
                self.viol('db2cache-not-empty', shape, 'thread %s ended with %d caches' % (name, st['db2cache']))
            if st['db_session']:
                self.viol('db_session-state-leaked', shape, 'thread %s' % name)
            if st.get('in_tx'):
                self.viol('pooled-connection-in-transaction', shape, 'thread %s' % name)
            if st.get('usable') is False:
                self.viol('pooled-connection-unusable', shape, 'thread %s: %s' % (name, st.get('err')))
        prov = E.db.provider
        for lname in ('transaction_lock', 'pre_transaction_lock'):
            lk = getattr(prov, lname)
            if lk.locked():
                self.viol('lock-held-after-session', shape, '%s held by %s' % (lname, lk.owner_name()))
            if getattr(lk, 'double_release', 0):
                self.viol('lock-double-release', shape, '%s released while not held' % lname)
        pool_cids = set(st['pool_con'] for st in self.ends.values() if st['pool_con'] is not None)
        for conn in c.conns:
            if conn.close_calls > 1:
                self.viol('connection-closed-twice', shape, 'connection #%d closed %d times'
                          % (conn.cid, conn.close_calls))
            if not conn.closed and conn.cid not in pool_cids:
                self.viol('connection-leaked', shape, 'connection #%d (thread %s) open and not pooled'
                          % (conn.cid, conn.thread))
        if c.closed_use:
            u = c.closed_use[0]
            self.viol('statement-on-closed-connection', shape, '%r' % (u,))
        # Concurrent sessions may legitimately fail for data reasons (optimistic checks, unique keys,
        # SQLite contention).  What they must never meet is the *machinery* of another session left in
        # a broken state: lock released twice / not held, statements on a closed or foreign
        # connection, transaction-state mix-ups, internal assertions.
        for name, lst in sorted(self.fails.items()):
            for sh, e in lst:
                kind = _infrastructure_error(e)
                if kind is None:
                    if 'database is locked' in str(e):
                        self.probe('contention_error')
                    continue
                self.viol('session-met-broken-machinery', 'shape=%s|exc=%s|%s' % (sh, kind, shape),
                          'thread %s shape %s failed with %s' % (name, sh, exc_str(e)))
        # liveness once faults stop
        def v2(sub, detail):
            self.viol(sub, shape, detail)
        shapes_mod.liveness_probe(E, v2, second_thread=True)
        try:
            E.db.disconnect()
        except BaseException:
            pass


def _chain(e):
    out = []
    seen = 0
    stack = [e]
    while stack and seen < 30:
        x = stack.pop()
        if x is None or any(x is y for y in out):
            continue
        out.append(x)
        seen += 1
        stack.append(getattr(x, 'original_exc', None))
        for ei in (getattr(x, 'exceptions', None) or ()):
            try:
                stack.append(ei[1])
            except Exception:
                pass
        stack.append(x.__cause__)
        stack.append(x.__context__)
    return out


def _infrastructure_error(e):
    """Name of the machinery failure hidden in an exception chain, or None."""
    for x in _chain(e):
        if getattr(x, 'ponysim_injected', None):
            continue
        if isinstance(x, simsched.SimDeadlock):
            return 'SimDeadlock'
        if isinstance(x, AssertionError):
            return 'AssertionError'
        if isinstance(x, RuntimeError) and 'lock' in str(x):
            return 'RuntimeError-lock'
        if isinstance(x, sqlite3.ProgrammingError):
            return 'ProgrammingError'
        if isinstance(x, sqlite3.OperationalError):
            m = str(x)
            if 'within a transaction' in m or 'no transaction is active' in m:
                return 'OperationalError-txstate'
    return None


def _caused_by_injection(e):
    seen = 0
    while e is not None and seen < 10:
        if getattr(e, 'ponysim_injected', None):
            return True
        oe = getattr(e, 'original_exc', None)
        if oe is not None and getattr(oe, 'ponysim_injected', None):
            return True
        excs = getattr(e, 'exceptions', None)
        if excs:
            for ei in excs:
                if _caused_by_injection(ei[1]):
                    return True
        e = e.__cause__ or e.__context__
        seen += 1
    return False


MODES = {'c22': C22, 'c19b': C19B}


def register(cls):
    MODES[cls.name] = cls
    return cls


# ---------------------------------------------------------------------------

def run_case(case, scratch):
    c = simdb.ctx
    mode = MODES[case['mode']](case, scratch)
    c.phase = 'setup'
    line_codes = None
    if mode.lines and case.get('lines', True):
        line_codes = _enable_lines(case.get('line_level', 'quick'))
    mode.setup()
    knobs = case.get('knobs') or {}
    c.busy_retries = int(knobs.get('busy_retries', 50))
    sched = simsched.Scheduler(rng=Rng(case.get('seed', 0), 'sched') if case.get('schedule') is None else None,
                               schedule=case.get('schedule'),
                               p_switch=float(case.get('p_switch', 0.0)),
                               change_points=case.get('change_points'),
                               step_cap=int(case.get('step_cap', mode.step_cap)))
    mode.sched = sched
    sched.line_codes = line_codes
    simsched.set_scheduler(sched)
    thread_errors = {}

    def make_body(name, prog):
        def body():
            try:
                mode.thread_body(name, prog)
            except simsched.SimAbort:
                raise
            except BaseException as e:
                thread_errors[name] = traceback.format_exc()[-3000:]
                raise
            finally:
                try:
                    mode.thread_end(name)
                except BaseException:
                    pass
        return body

    for name in sorted(case['threads']):
        sched.spawn(name, make_body(name, case['threads'][name]))
    n_setup = len(c.events)
    c.g = 0
    c.thread_k = {}
    c.phase = 'main'
    for t, k, kind in case.get('faults', ()):
        c.faults[(t, int(k))] = kind

    def fault_filter(ev, requested):
        # an integer selects among the fault kinds that are legal at the call actually reached
        if isinstance(requested, int):
            legal = shapes_mod.legal_faults(ev, 'quick', 'file')
            if not legal:
                return None
            return legal[requested % len(legal)]
        return requested
    c.fault_filter = fault_filter
    outcome = sched.run()
    c.phase = 'post'
    dirty = False
    if outcome in ('deadlock', 'step-cap'):
        sched.abort()
        dirty = True
    for t in sched.threads:
        if t.thread is not None:
            t.thread.join(5)
            if t.thread.is_alive():
                dirty = True
    simsched.set_scheduler(None)
    res = {}
    if thread_errors:
        res['harness_error'] = 'exception escaped a simulated thread body: %r' % thread_errors
        res['dirty'] = dirty
        return res
    if outcome == 'step-cap':
        res['harness_error'] = 'step cap reached (%d decisions)' % sched.decisions
        res['dirty'] = True
        return res
    mode.check(outcome)
    main_events = [ev for ev in c.events[n_setup:] if ev['phase'] == 'main']
    digest = hsh([[ev['g'], ev['t'], ev['c'], ev['kind'], ev.get('sql'), ev.get('params'), ev.get('rows'),
                   ev.get('fault'), ev.get('exc')] for ev in main_events]
                 + [sched.trace, outcome, sorted((k, [o[:3] for o in v]) for k, v in mode.obs.items())])
    inter = hsh([[s[1], s[2], s[3]] for s in sched.switch_log])
    res.update({
        'violations': mode.violations,
        'outcome': outcome,
        'schedule': sched.trace,
        'decisions': sched.decisions,
        'fired': c.fired,
        'digest': digest,
        'sig': hsh([case['mode'], case['threads'], sched.trace, [[f[1], f[2], f[4]] for f in c.fired]]),
        'nontrivial': len(sched.switch_log) > len(sched.threads) or bool(c.fired),
        'interleavings': [inter],
        'sim_time': c.sim_time,
        'probes': dict(mode.probes, busy_seen=c.busy_seen, busy_wait_expired=c.busy_expired,
                       lock_contended=sum(getattr(l, 'contended', 0) for l in _locks(mode)),
                       preemptions_taken=len(sched.trace)),
        'stats': {'decisions': sched.decisions, 'switches': len(sched.switch_log),
                  'line_yields': sched.yield_counts.get('line', 0), 'db_yields': sched.yield_counts.get('db', 0),
                  'lock_yields': sched.yield_counts.get('lock-acquire', 0)},
        'obs': mode.obs if case.get('want_obs') else None,
        'events': main_events if case.get('want_events') else None,
        'dirty': dirty,
        'sample': {'mode': case['mode'], 'threads': case['threads'], 'faults': case.get('faults', []),
                   'schedule': sched.trace[:40], 'outcome': outcome,
                   'switches': [[s[0], s[2], s[3]] for s in sched.switch_log[:30]]},
    })
    return res


def _locks(mode):
    out = []
    db = getattr(mode, 'db', None) or getattr(getattr(mode, 'E', None), 'db', None)
    if db is not None and db.provider is not None:
        for n in ('transaction_lock', 'pre_transaction_lock'):
            l = getattr(db.provider, n, None)
            if l is not None:
                out.append(l)
    return out


def shrink(case):
    """one-step reductions: drop a schedule entry, drop a fault, drop an op/session, drop a thread"""
    sched = case.get('schedule')
    if sched:
        n = len(sched)
        size = n
        while size >= 1:
            for i in range(0, n, size):
                c = dict(case)
                c['schedule'] = sched[:i] + sched[i + size:]
                if len(c['schedule']) < n:
                    yield c
            if size == 1:
                break
            size = max(1, size // 2)
    faults = case.get('faults') or []
    for i in range(len(faults)):
        c = dict(case)
        c['faults'] = faults[:i] + faults[i + 1:]
        yield c
    threads = case['threads']
    if len(threads) > 2:
        for t in sorted(threads):
            c = dict(case)
            c['threads'] = dict((k, v) for k, v in threads.items() if k != t)
            c.pop('solo', None)
            yield c
    for t in sorted(threads):
        prog = threads[t]
        for i in range(len(prog)):
            c = dict(case)
            th = dict(threads)
            th[t] = prog[:i] + prog[i + 1:]
            c['threads'] = th
            c.pop('solo', None)
            c['_needs_solo'] = True
            yield c
        for i, sess in enumerate(prog):
            if isinstance(sess, dict) and 'ops' in sess:
                for j in range(len(sess['ops'])):
                    c = dict(case)
                    th = dict(threads)
                    s2 = dict(sess)
                    s2['ops'] = sess['ops'][:j] + sess['ops'][j + 1:]
                    th[t] = prog[:i] + [s2] + prog[i + 1:]
                    c['threads'] = th
                    c.pop('solo', None)
                    c['_needs_solo'] = True
                    yield c


from . import conc_data  # noqa: E402,F401  (registers the data modes)
from . import conc_lock  # noqa: E402,F401
