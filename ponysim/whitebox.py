"""Side-effect-free inspection of a live SessionCache (oracle rule R6): session
snapshots for C13, identity-map invariants for C11, relationship symmetry for C12.
Never calls a public getter, never loads anything."""
from pony.orm import core

DEL = ('marked_to_delete', 'deleted', 'cancelled')


def _name(obj):
    return '%s[%r]#%d' % (type(obj).__name__, obj._pkval_, obj._newid_ or 0)


def _val(v):
    if isinstance(v, core.Entity):
        return ('E', id(v))
    if isinstance(v, core.SetData):
        return ('S', frozenset(id(i) for i in v), frozenset(id(i) for i in (v.added or ())),
                frozenset(id(i) for i in (v.removed or ())), v.is_fully_loaded, v.count)
    try:
        hash(v)
        return v
    except TypeError:
        return repr(v)


def _is_pk_attr(obj, name):
    return any(a.name == name for a in type(obj)._pk_attrs_)


def _no_columns(obj, name):
    """the column-less side of a one-to-one relationship: loading 'no partner' stores None without a db value"""
    a = getattr(type(obj), name, None)
    return a is not None and not getattr(a, 'columns', None)


def snapshot(cache):
    """Everything the property calls 'observable part of the session' plus the pending-write bookkeeping."""
    if cache is None or not cache.is_alive:
        return None
    objs = {}
    for obj in cache.objects:
        vals = obj._vals_
        d = dict((a.name, _val(v)) for a, v in vals.items()) if vals is not None else None
        if d is not None and obj._dbvals_ is not None:
            d['<dbvals>'] = frozenset(a.name for a in obj._dbvals_)
        objs[id(obj)] = (obj, obj._status_, obj._wbits_, obj._save_pos_, d)
    indexes = {}
    for key, idx in cache.indexes.items():
        kname = key.name if isinstance(key, core.Attribute) else tuple(a.name for a in key)
        ent = (key.entity if isinstance(key, core.Attribute) else key[0].entity).__name__
        indexes[(ent, kname)] = dict((k if not isinstance(k, core.Entity) else ('E', id(k)), id(o))
                                     for k, o in idx.items())
    return {
        'objs': objs,
        'indexes': indexes,
        'to_save': [id(o) if o is not None else None for o in cache.objects_to_save],
        'modified': cache.modified,
        'modcoll': dict((a.name, frozenset(id(o) for o in s)) for a, s in cache.modified_collections.items() if s),
    }


def diff_snapshots(before, after):
    """List of human-readable differences that are NOT explained by mere loading."""
    out = []
    if before is None or after is None:
        if (before is None) != (after is None):
            out.append('session cache liveness changed')
        return out
    bo, ao = before['objs'], after['objs']
    for oid, (obj, st, wb, sp, vals) in bo.items():
        if oid not in ao:
            out.append('%s vanished from the session' % _name(obj))
            continue
        _, st2, wb2, sp2, vals2 = ao[oid]
        if st != st2:
            out.append('%s status %s -> %s' % (_name(obj), st, st2))
        if wb != wb2:
            out.append('%s write bits %r -> %r' % (_name(obj), wb, wb2))
        if sp != sp2:
            out.append('%s save position %r -> %r' % (_name(obj), sp, sp2))
        if vals is None or vals2 is None:
            if vals != vals2:
                out.append('%s values dropped' % _name(obj))
            continue
        for an, v in vals.items():
            if an == '<dbvals>':
                continue
            if an not in vals2:
                out.append('%s.%s was loaded, now missing' % (_name(obj), an))
                continue
            v2 = vals2[an]
            if v == v2:
                continue
            if isinstance(v, tuple) and v and v[0] == 'S' and isinstance(v2, tuple) and v2 and v2[0] == 'S':
                # collection: loading may add items and complete it; pending added/removed must not change
                if v[2] != v2[2] or v[3] != v2[3]:
                    out.append('%s.%s pending added/removed changed' % (_name(obj), an))
                elif not v[1] <= v2[1]:
                    out.append('%s.%s lost items' % (_name(obj), an))
                elif v[4] and v[1] != v2[1]:
                    out.append('%s.%s was fully loaded and changed' % (_name(obj), an))
                continue
            out.append('%s.%s %r -> %r' % (_name(obj), an, v, v2))
        db2 = vals2.get('<dbvals>')
        for an in vals2:
            if an not in vals and an != '<dbvals>':
                # newly present value: fine when it is a plain load, i.e. the value came from the database
                # (Pony records loaded column values in _dbvals_); a value that merely appeared in _vals_
                # of a stored object is a leftover of the failed call
                v2 = vals2[an]
                is_coll = isinstance(v2, tuple) and v2 and v2[0] == 'S'
                if is_coll:
                    if v2[2] or v2[3]:
                        out.append('%s.%s appeared with pending added/removed items' % (_name(obj), an))
                elif st2 in ('loaded', 'modified', 'inserted', 'updated') and db2 is not None and an not in db2 \
                        and not _is_pk_attr(obj, an) and not (v2 is None and _no_columns(obj, an)):
                    out.append('%s.%s was not loaded and now reads %r without having been loaded from the database'
                               % (_name(obj), an, v2))
    for oid, (obj, st2, wb2, sp2, vals2) in ao.items():
        # a row the failed call fetched is fine; an object left with database values but without the values
        # themselves is not a load (no later read can complete it: Pony compares the fetched row with _dbvals_)
        if not vals2 or '<dbvals>' not in vals2 or st2 in DEL:
            continue
        half = set(vals2['<dbvals>']) - set(vals2)
        if half and oid in bo and bo[oid][4]:
            half -= set(bo[oid][4].get('<dbvals>', ())) - set(bo[oid][4])
        if half:
            out.append('%s is half-loaded: database values without values for %s' % (_name(obj), sorted(half)))
    new_ids = set(ao) - set(bo)
    for oid in new_ids:
        obj, st2, wb2, sp2, vals2 = ao[oid]
        if st2 in ('created', 'modified', 'marked_to_delete'):
            out.append('new pending object %s (%s) appeared' % (_name(obj), st2))
    if before['to_save'] != after['to_save']:
        out.append('objects_to_save changed (%d -> %d entries)' % (len(before['to_save']), len(after['to_save'])))
    # cache.modified and modified_collections are bookkeeping flags without observable effect of their own
    # (a flush with nothing to save does nothing); the substance - objects_to_save, collection contents and
    # their pending added/removed sets - is compared above
    bi, ai = before['indexes'], after['indexes']
    for k, idx in bi.items():
        idx2 = ai.get(k, {})
        for key, oid in idx.items():
            if key not in idx2:
                out.append('index %s.%s lost key %r' % (k[0], k[1], key))
            elif idx2[key] != oid:
                out.append('index %s.%s key %r now maps to another object' % (k[0], k[1], key))
    for k, idx2 in ai.items():
        idx = bi.get(k, {})
        for key, oid in idx2.items():
            if key not in idx and oid in bo:
                # a key that was not registered before now points at an object that already existed:
                # fine if the failed call merely loaded the key attribute(s) of that object
                obj, _st, _wb, _sp, bvals = bo[oid]
                names = (k[1],) if isinstance(k[1], str) else tuple(k[1])
                if bvals is not None and all(n in bvals for n in names):
                    out.append('index %s.%s gained key %r for existing object %s' % (k[0], k[1], key, _name(obj)))
            elif key not in idx and oid not in after['objs']:
                # ... or at something that is no object of the session at all (what a refused constructor left)
                out.append('index %s.%s gained key %r for an object that is not part of the session' % (k[0], k[1], key))
    return out


def identity_invariants(cache):
    """C11: key indexes <-> object values, bijective over live objects."""
    out = []
    if cache is None or not cache.is_alive:
        return out
    for key, idx in cache.indexes.items():
        is_attr = isinstance(key, core.Attribute)
        attrs = (key,) if is_attr else tuple(key)
        ent = attrs[0].entity
        is_pk = tuple(attrs) == tuple(ent._pk_attrs_)
        kname = '.'.join(a.name for a in attrs)
        seen = {}
        for k, obj in idx.items():
            if obj._status_ in ('cancelled',):
                out.append(('index-holds-dead-object', '%s.%s' % (ent.__name__, kname),
                            'index %s.%s key %r maps to %s object %s' % (ent.__name__, kname, k, obj._status_, _name(obj))))
                continue
            if obj._status_ in ('marked_to_delete', 'deleted') and not is_pk:
                out.append(('index-holds-dead-object', '%s.%s' % (ent.__name__, kname),
                            'index %s.%s key %r maps to %s object %s' % (ent.__name__, kname, k, obj._status_, _name(obj))))
                continue
            if obj not in cache.objects and obj._status_ not in DEL:
                out.append(('index-object-not-in-session', '%s.%s' % (ent.__name__, kname), _name(obj)))
            if is_pk:
                cur = obj._pkval_
            else:
                vals = obj._vals_
                if vals is None:
                    continue
                cur = tuple(vals.get(a, core.NOT_LOADED) for a in attrs)
                if is_attr:
                    cur = cur[0]
            if cur != k and not (is_attr and cur is core.NOT_LOADED):
                if not is_attr and isinstance(cur, tuple) and any(c is core.NOT_LOADED for c in cur):
                    continue
                out.append(('index-key-stale', '%s.%s' % (ent.__name__, kname),
                            'index %s.%s key %r maps to %s whose current value is %r'
                            % (ent.__name__, kname, k, _name(obj), cur)))
            if id(obj) in seen and seen[id(obj)] != k:
                out.append(('object-under-two-keys', '%s.%s' % (ent.__name__, kname),
                            '%s registered under %r and %r' % (_name(obj), seen[id(obj)], k)))
            seen[id(obj)] = k
    # every live object must be reachable under its pk and its non-None unique keys
    for obj in cache.objects:
        if obj._status_ in DEL:
            continue
        ent = type(obj)
        pk = obj._pkval_
        if pk is not None:
            got = cache.indexes[ent._pk_attrs_].get(pk)
            if got is not obj:
                out.append(('object-not-reachable-by-pk', ent.__name__,
                            '%s is live but the pk index maps %r to %r' % (_name(obj), pk, got)))
        vals = obj._vals_
        if vals is None:
            continue
        for a in ent._simple_keys_:
            v = vals.get(a, core.NOT_LOADED)
            if v is None or v is core.NOT_LOADED:
                continue
            got = cache.indexes[a].get(v)
            if got is not obj:
                out.append(('object-not-reachable-by-key', '%s.%s' % (ent.__name__, a.name),
                            '%s holds %s=%r but the index maps that key to %r' % (_name(obj), a.name, v, got)))
        for attrs in ent._composite_keys_:
            vs = tuple(vals.get(a, core.NOT_LOADED) for a in attrs)
            if any(v is None or v is core.NOT_LOADED for v in vs):
                continue
            got = cache.indexes[attrs].get(vs)
            if got is not obj:
                out.append(('object-not-reachable-by-key', '%s.(%s)' % (ent.__name__, ','.join(a.name for a in attrs)),
                            '%s holds %r but the composite index maps that key to %r' % (_name(obj), vs, got)))
    return out


def relation_invariants(cache):
    """C12: both ends agree, over loaded state only."""
    out = []
    if cache is None or not cache.is_alive:
        return out
    for obj in cache.objects:
        if obj._status_ in DEL:
            continue
        vals = obj._vals_
        if vals is None:
            continue
        for attr, v in list(vals.items()):
            rev = attr.reverse
            if rev is None:
                continue
            if attr.is_collection:
                sd = v
                if sd is None:
                    continue
                if sd.added and sd.removed and (sd.added & sd.removed):
                    out.append(('added-and-removed-overlap', '%s.%s' % (type(obj).__name__, attr.name), _name(obj)))
                if sd.is_fully_loaded and sd.count is not None and sd.count != len(sd):
                    out.append(('count-disagrees', '%s.%s%s' % (type(obj).__name__, attr.name,
                                                                 '|self-link' if obj in sd else ''),
                                '%s.%s count=%r but holds %d items' % (_name(obj), attr.name, sd.count, len(sd))))
                for item in sd:
                    if item._status_ in DEL:
                        out.append(('collection-holds-deleted', '%s.%s' % (type(obj).__name__, attr.name),
                                    '%s.%s contains %s object %s' % (_name(obj), attr.name, item._status_, _name(item))))
                        continue
                    iv = item._vals_
                    if iv is None or rev not in iv:
                        continue
                    back = iv[rev]
                    if not rev.is_collection:
                        if back is not obj:
                            out.append(('one-to-many-ends-disagree', '%s.%s' % (type(obj).__name__, attr.name),
                                        '%s is in %s.%s but its %s is %r' % (_name(item), _name(obj), attr.name, rev.name,
                                                                             _name(back) if back is not None else None)))
                    else:
                        if back is not None and obj not in back and back.is_fully_loaded:
                            out.append(('many-to-many-ends-disagree', '%s.%s' % (type(obj).__name__, attr.name),
                                        '%s is in %s.%s but not the reverse (fully loaded)' % (_name(item), _name(obj), attr.name)))
            else:
                other = v
                if other is None or other is core.NOT_LOADED or not isinstance(other, core.Entity):
                    continue
                if other._status_ in DEL:
                    out.append(('reference-to-deleted', '%s.%s' % (type(obj).__name__, attr.name),
                                '%s.%s refers to %s object %s' % (_name(obj), attr.name, other._status_, _name(other))))
                    continue
                ov = other._vals_
                if ov is None or rev not in ov:
                    continue
                back = ov[rev]
                if rev.is_collection:
                    if back is not None and back.is_fully_loaded and obj not in back:
                        out.append(('many-to-one-ends-disagree', '%s.%s' % (type(obj).__name__, attr.name),
                                    '%s.%s is %s but %s.%s (fully loaded) does not contain it'
                                    % (_name(obj), attr.name, _name(other), _name(other), rev.name)))
                else:
                    if back is not obj and back is not core.NOT_LOADED:
                        out.append(('one-to-one-not-mutual', '%s.%s' % (type(obj).__name__, attr.name),
                                    '%s.%s is %s but %s.%s is %r' % (_name(obj), attr.name, _name(other), _name(other),
                                                                     rev.name, _name(back) if back is not None else None)))
    return out
