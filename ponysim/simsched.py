"""Seeded baton-passing scheduler for real threads, plus simulated locks.

Exactly one simulated thread runs at any time.  Every pre-emption point calls
`Scheduler.yield_point`; the scheduler either lets the caller continue or hands
the baton to another runnable thread.  A schedule is the list of decisions at
which the choice differed from the default ("continue the current thread; if it
cannot continue, the lowest-numbered runnable thread"): [[decision_index,
thread_name], ...].  Deleting an entry always gives a valid simpler schedule.
"""
import sys
import threading

_real_Lock = threading.Lock
_real_Semaphore = threading.Semaphore


class SimDeadlock(Exception):
    """A simulated lock acquire that can never succeed (observable state, not a hang)."""


class SimAbort(BaseException):
    """Raised inside simulated threads to unwind them when the run is aborted."""


class SimThread(object):
    def __init__(self, name, index, fn):
        self.name = name
        self.index = index
        self.fn = fn
        self.sem = _real_Semaphore(0)
        self.state = 'new'        # new | runnable | blocked | busywait | finished
        self.blocked_on = None
        self.exc = None
        self.result = None
        self.thread = None
        self.busy_retries = 0


class Scheduler(object):
    def __init__(self, rng=None, schedule=None, p_switch=0.0, step_cap=20000, change_points=None):
        self.rng = rng
        self.replay = dict((int(d), t) for d, t in schedule) if schedule is not None else None
        self.p_switch = p_switch
        self.change_points = set(change_points or ())   # PCT-style: decision indices at which to switch
        self.step_cap = step_cap
        self.threads = []
        self.by_name = {}
        self.current = None
        self.decisions = 0
        self.trace = []            # recorded non-default decisions
        self.switch_log = []       # (decision, from, to, kind) at every context switch
        self.outcome = None        # all-finished | deadlock | step-cap
        self.deadlock_info = None
        self.done = threading.Event()
        self.active = False
        self.aborting = False
        self._ident2thread = {}
        self.yield_counts = {}
        self.line_codes = None     # set of code objects whose LINE events are pre-emption points in this run

    # ---- set-up ----
    def spawn(self, name, fn):
        t = SimThread(name, len(self.threads), fn)
        self.threads.append(t)
        self.by_name[name] = t
        return t

    def current_sim_thread(self):
        return self._ident2thread.get(threading.get_ident())

    def run(self):
        """Called from the (unscheduled) main thread.  Returns outcome string."""
        self.active = True
        for t in self.threads:
            t.state = 'runnable'
            th = threading.Thread(target=self._thread_main, args=(t,), name=t.name)
            th.daemon = True
            t.thread = th
            th.start()
        first = self._choose(None, 'start')
        if first is None:
            self.outcome = 'all-finished'
        else:
            self.current = first
            first.sem.release()
            self.done.wait()
        self.active = False
        return self.outcome

    # ---- thread body ----
    def _thread_main(self, t):
        self._ident2thread[threading.get_ident()] = t
        t.sem.acquire()
        if self.aborting:
            return
        try:
            t.result = t.fn()
        except SimAbort:
            t.exc = None
        except BaseException as e:   # recorded, classified by the engine
            t.exc = e
        t.state = 'finished'
        if self.aborting:
            return
        self._wake_busy()
        self._handoff(t, 'finish')

    # ---- core ----
    def _runnable(self):
        return [t for t in self.threads if t.state == 'runnable']

    def _choose(self, cur, kind):
        """Pick the next thread to run.  cur may be None / not runnable."""
        runnable = self._runnable()
        if not runnable:
            return None
        default = cur if (cur is not None and cur.state == 'runnable') else runnable[0]
        d = self.decisions
        self.decisions += 1
        choice = default
        if len(runnable) > 1:
            if self.replay is not None:
                name = self.replay.get(d)
                if name is not None:
                    t = self.by_name.get(name)
                    if t is not None and t.state == 'runnable':
                        choice = t
            elif self.rng is not None:
                switch = (d in self.change_points) or (self.p_switch > 0 and self.rng.chance(self.p_switch))
                if switch:
                    others = [t for t in runnable if t is not default]
                    choice = others[self.rng.below(len(others))]
        if choice is not default:
            self.trace.append([d, choice.name])
        if choice is not cur:
            self.switch_log.append((d, cur.name if cur is not None else None, choice.name, kind))
        return choice

    def _handoff(self, me, kind):
        """me cannot (or need not) continue: give the baton to someone else."""
        nxt = self._choose(me, kind)
        if nxt is None:
            unfinished = [t for t in self.threads if t.state != 'finished']
            if unfinished:
                # only busy-waiters left? let them time out (deliver the error)
                bw = [t for t in unfinished if t.state == 'busywait']
                if bw:
                    t = bw[0]
                    t.busy_retries = 10 ** 9
                    t.state = 'runnable'
                    self.current = t
                    if t is not me:
                        t.sem.release()
                        return False
                    return True
                self.outcome = 'deadlock'
                self.deadlock_info = [(t.name, t.state, getattr(t.blocked_on, 'name', None)) for t in unfinished]
            else:
                self.outcome = 'all-finished'
            self.done.set()
            return False
        self.current = nxt
        if nxt is me:
            return True
        nxt.sem.release()
        return False

    def yield_point(self, kind, info=None):
        me = self.current_sim_thread()
        if me is None or not self.active or me is not self.current:
            return
        if self.aborting:
            raise SimAbort()
        self.yield_counts[kind] = self.yield_counts.get(kind, 0) + 1
        if self.decisions >= self.step_cap:
            self.outcome = 'step-cap'
            self.aborting = True
            self.done.set()
            raise SimAbort()
        nxt = self._choose(me, kind)
        if nxt is me or nxt is None:
            return
        self.current = nxt
        nxt.sem.release()
        me.sem.acquire()
        if self.aborting:
            raise SimAbort()

    def block(self, me, lock):
        """Current thread cannot proceed until `lock` is released."""
        me.state = 'blocked'
        me.blocked_on = lock
        cont = self._handoff(me, 'block')
        if not cont:
            if self.outcome == 'deadlock':
                # park forever (process exits via os._exit); but unblock if aborted
                me.sem.acquire()
                raise SimAbort()
            me.sem.acquire()
            if self.aborting:
                raise SimAbort()

    def wake(self, lock):
        for t in self.threads:
            if t.state == 'blocked' and t.blocked_on is lock:
                t.state = 'runnable'
                t.blocked_on = None

    # ---- busy wait (database is locked) ----
    def busy_wait(self, max_retries):
        """Park the current thread until another thread made a DB call.
        Returns True if the caller should retry, False if the simulated timeout expired."""
        me = self.current_sim_thread()
        if me is None or not self.active:
            return False
        if me.busy_retries >= max_retries:
            me.busy_retries = 0
            return False
        me.busy_retries += 1
        me.state = 'busywait'
        cont = self._handoff(me, 'busywait')
        if not cont:
            me.sem.acquire()
            if self.aborting:
                raise SimAbort()
        if me.busy_retries >= 10 ** 9:
            me.busy_retries = 0
            return False
        return True

    def _wake_busy(self):
        for t in self.threads:
            if t.state == 'busywait':
                t.state = 'runnable'

    def db_call_done(self):
        """Called after every real DB call by a simulated thread: busy waiters may retry."""
        me = self.current_sim_thread()
        if me is not None:
            me.busy_retries = 0
        self._wake_busy()

    def abort(self):
        self.aborting = True
        for t in self.threads:
            try:
                t.sem.release()
            except Exception:
                pass


class SimLock(object):
    """Replacement for threading.Lock() inside Pony's SQLite provider."""
    _counter = 0
    reentrant = False

    def __init__(self):
        SimLock._counter += 1
        self.name = 'L%d' % SimLock._counter
        self.owner = None     # SimThread, or 'main'
        self.depth = 0
        self.acquires = 0
        self.contended = 0
        self.double_release = 0

    def _me(self):
        s = current_scheduler()
        if s is not None and s.active:
            t = s.current_sim_thread()
            if t is not None:
                return s, t
        return None, 'main:%d' % threading.get_ident()

    def acquire(self, blocking=True, timeout=-1):
        s, me = self._me()
        if s is not None:
            s.yield_point('lock-acquire', self.name)
        while True:
            if self.owner is None:
                self.owner = me
                self.depth = 1
                self.acquires += 1
                return True
            if self.reentrant and self.owner == me:
                self.depth += 1
                return True
            if not blocking:
                return False
            self.contended += 1
            if s is None:
                raise SimDeadlock('lock %s is held by %r and the caller is not a scheduled thread'
                                  % (self.name, getattr(self.owner, 'name', self.owner)))
            s.block(me, self)

    def release(self):
        if self.owner is None:
            self.double_release += 1
            raise RuntimeError('release unlocked lock')
        if self.reentrant:
            self.depth -= 1
            if self.depth > 0:
                return
        self.owner = None
        self.depth = 0
        s, me = self._me()
        if s is not None:
            s.wake(self)
            s.yield_point('lock-release', self.name)
        else:
            sc = current_scheduler()
            if sc is not None:
                sc.wake(self)

    def locked(self):
        return self.owner is not None

    def __enter__(self):
        self.acquire()
        return self

    def __exit__(self, *a):
        self.release()

    def owner_name(self):
        o = self.owner
        return getattr(o, 'name', o)


class SimRLock(SimLock):
    reentrant = True


_scheduler = None


def current_scheduler():
    return _scheduler


def set_scheduler(s):
    global _scheduler
    _scheduler = s


# ---------------------------------------------------------------------------
# line-level pre-emption through sys.monitoring (Python 3.12+)

_TOOL_ID = 4
_line_codes = []
_line_hits = {}


def _line_callback(code, line):
    s = _scheduler
    if s is not None and s.active and s.line_codes is not None and code in s.line_codes:
        key = code.co_name
        _line_hits[key] = _line_hits.get(key, 0) + 1
        s.yield_point('line', (code.co_name, line))


def enable_line_preemption(code_objects):
    mon = getattr(sys, 'monitoring', None)
    if mon is None:
        raise RuntimeError('sys.monitoring not available')
    try:
        mon.use_tool_id(_TOOL_ID, 'ponysim')
    except ValueError:
        pass
    mon.register_callback(_TOOL_ID, mon.events.LINE, _line_callback)
    for co in code_objects:
        mon.set_local_events(_TOOL_ID, co, mon.events.LINE)
        _line_codes.append(co)


def line_hits():
    return dict(_line_hits)
